#!/usr/bin/env python3
"""Scratch copy of the real crate for Kani / native evaluation.

Copies /repo (src, Cargo.toml, Cargo.lock, rust-toolchain) to a scratch directory and adds ONLY
  * one line `#[cfg(kani)] mod verif_kani;` (resp. `#[cfg(test)] mod verif_native;`) at the end of the module files
    that get a child harness module (child modules see private items),
  * the harness files themselves (verif_kani.rs / verif_native.rs in the module's directory).
Then it diffs scratch against /repo and refuses to go on unless every difference is one of those added lines or an
added harness file: that diff is the demonstration that the verified text is the code that runs.
"""
import filecmp
import json
import os
import re
import shutil
import sys

HERE = os.path.dirname(os.path.abspath(__file__))
sys.path.insert(0, HERE)
import oracle_gen  # noqa: E402


class SpliceError(Exception):
    pass


def module_dir(module_file):
    # src/board/zkey.rs -> src/board/zkey ; src/board.rs -> src/board
    return module_file[:-3]


def static_inits(repo, rel, name):
    """every initialisation site of a OnceLock static in its defining file (`NAME.get_or_init(F)`, `NAME.set(V)`), as Rust
    tuples (text, closure producing the value): the native fact `table_initialisers_agree` evaluates each of them"""
    text = open(os.path.join(repo, rel)).read()
    code = re.sub(r'//[^\n]*', lambda m: ' ' * len(m.group(0)), text)
    items, seen = [], set()
    for m in re.finditer(r'\b%s\s*\.\s*(get_or_init|set)\s*\(' % name, code):
        o = m.end() - 1
        depth, j = 0, o
        while True:
            if code[j] == '(':
                depth += 1
            elif code[j] == ')':
                depth -= 1
                if depth == 0:
                    break
            j += 1
        arg = ' '.join(code[o + 1:j].split())
        # `Self` is the type of the innermost impl block above the occurrence
        impls = [mm.group(1) for mm in re.finditer(r'^impl(?:<[^>]*>)?\s+(?:[A-Za-z_:<>&\s]+\s+for\s+)?([A-Za-z_][A-Za-z_0-9]*)', code[:m.start()], flags=re.M)]
        if 'Self' in arg and impls:
            arg = re.sub(r'\bSelf\b', impls[-1], arg)
        expr = ('%s()' % arg) if m.group(1) == 'get_or_init' else arg
        if expr in seen:
            continue
        seen.add(expr)
        items.append('(%s, Box::new(|| %s))' % (json.dumps(m.group(1) + '(' + arg + ')'), expr))
    return 'let inits: Vec<(&str, Box<dyn Fn() -> ZTable>)> = vec![%s];' % ', '.join(items)


def splice(repo, scratch, kind='kani'):
    cfg = json.load(open(os.path.join(HERE, 'splice.json')))
    if os.path.exists(scratch):
        shutil.rmtree(scratch)
    os.makedirs(scratch)
    for item in ('src', 'Cargo.toml', 'Cargo.lock', 'rust-toolchain'):
        s = os.path.join(repo, item)
        if os.path.isdir(s):
            shutil.copytree(s, os.path.join(scratch, item))
        elif os.path.exists(s):
            shutil.copy(s, os.path.join(scratch, item))
    os.makedirs(os.path.join(scratch, '.cargo'), exist_ok=True)
    open(os.path.join(scratch, '.cargo', 'config.toml'), 'w').write('[net]\noffline = true\n')
    nocache = kind == 'replay-nocache'
    if nocache:
        kind = 'replay'
    modname = {'kani': 'verif_kani', 'native': 'verif_native', 'replay': 'verif_replay'}[kind]
    attr = '#[cfg(kani)]' if kind == 'kani' else '#[cfg(test)]'
    added_files, touched = [], []
    oracle = oracle_gen.generate(os.path.join(os.path.dirname(HERE), 'vx'))
    for ent in cfg[kind]:
        mf = os.path.join(scratch, ent['module_file'])
        if not os.path.exists(mf):
            raise SpliceError('lost anchor: module file %s' % ent['module_file'])
        with open(mf, 'a') as f:
            f.write('\n%s mod %s;\n' % (attr, modname))
        touched.append(ent['module_file'])
        d = os.path.join(scratch, module_dir(ent['module_file']))
        os.makedirs(d, exist_ok=True)
        text = open(os.path.join(HERE, 'harness', ent['harness'])).read()
        text = text.replace('//@ORACLE', oracle)
        if '//@STATIC-INITS' in text:
            text = text.replace('//@STATIC-INITS', static_inits(repo, 'src/board/zkey.rs', 'TABLE'))
        for inc in re.findall(r'^//@INCLUDE (\S+)$', text, flags=re.M):
            text = text.replace('//@INCLUDE ' + inc, open(os.path.join(HERE, 'harness', inc)).read())
        hf = os.path.join(d, modname + '.rs')
        open(hf, 'w').write(text)
        added_files.append(os.path.relpath(hf, scratch))
    edited = {}
    if nocache:
        # [C11 "with result caching neutralised"] the one probe of the transposition table whose result alpha_beta uses
        # is replaced by "nothing found"; any other shape of that probe -> the replay is not run (undecided)
        rel = 'src/search.rs'
        txt = open(os.path.join(scratch, rel)).read()
        rx = re.compile(r'if let Some\(entry\) = TRANSPOSITION_TABLE\s*\.read\(\)\s*\.expect\("[^"]*"\)\s*\.get\(&self\.board\.zkey\)')
        if len(rx.findall(txt)) != 1:
            raise SpliceError('lost anchor: the transposition-table probe of alpha_beta (cache cannot be neutralised mechanically)')
        new = rx.sub('if let Some(entry) = None::<&TTEntry>', txt)
        edited[rel] = new if rel not in touched else None
        open(os.path.join(scratch, rel), 'w').write(new)
    if kind == 'replay':
        # process-level replay tests: an integration-test file of the scratch copy (the repository has no tests/ directory of its own)
        if os.path.exists(os.path.join(repo, 'tests')):
            raise SpliceError('repository has a tests/ directory: process-level replay file would mix with it')
        os.makedirs(os.path.join(scratch, 'tests'))
        bt = open(os.path.join(HERE, 'replay', 'bin_replay.rs')).read()
        br = open(os.path.join(HERE, 'replay', 'board_replay.rs')).read()
        i0 = br.index('mod refrules {')
        i1 = br.index('\nfn ref_kind(')
        bt = bt.replace('//@REFRULES', '#[allow(dead_code)]\n' + br[i0:i1])   # the same reference rules engine, textually
        open(os.path.join(scratch, 'tests', 'verif_replay_bin.rs'), 'w').write(bt)
    # ---- demonstrate that nothing else differs
    for root, _, files in os.walk(os.path.join(scratch, 'src')):
        for fn in files:
            rel = os.path.relpath(os.path.join(root, fn), scratch)
            orig = os.path.join(repo, rel)
            if rel in added_files:
                if os.path.exists(orig):
                    raise SpliceError('harness file would overwrite a repository file: ' + rel)
                continue
            if not os.path.exists(orig):
                raise SpliceError('unexpected file in scratch: ' + rel)
            a = open(orig).read()
            b = open(os.path.join(root, fn)).read()
            if rel in edited:
                a = rx.sub('if let Some(entry) = None::<&TTEntry>', a)
            if rel in touched:
                expect = a + '\n%s mod %s;\n' % (attr, modname)
                if b != expect:
                    raise SpliceError('unexpected difference in ' + rel)
            elif a != b:
                raise SpliceError('unexpected difference in ' + rel)
    # fresh modification times: the shared build cache must never serve an artifact built from an earlier copy
    for sub in ('src', 'tests'):
        for root, _, files in os.walk(os.path.join(scratch, sub)):
            for fn in files:
                os.utime(os.path.join(root, fn), None)
    return {'added_files': added_files, 'touched': touched}


if __name__ == '__main__':
    print(splice(sys.argv[1], sys.argv[2], sys.argv[3] if len(sys.argv) > 3 else 'kani'))
