#!/usr/bin/env python3
"""Runs the Kani ledger rows (and natively evaluated ground facts) a property depends on, on a scratch copy of the
real crate into which only cfg(kani)/cfg(test) harness modules were spliced (kx/splice.py)."""
import os
import re
import subprocess
import time

import splice

CACHE = os.environ.get('VERIF_CACHE', '/var/tmp/rce-verif-cache')


class _CacheLock:
    """checks may run concurrently; the cargo build cache is shared, so building and running from it is serialised"""
    def __init__(self, name):
        os.makedirs(CACHE, exist_ok=True)
        self.f = open(os.path.join(CACHE, name + '.lock'), 'w')
    def __enter__(self):
        import fcntl
        fcntl.flock(self.f, fcntl.LOCK_EX)
        return self
    def __exit__(self, *a):
        import fcntl
        fcntl.flock(self.f, fcntl.LOCK_UN)
        self.f.close()


def _fresh_mtimes(d):
    """called with the cache lock held, right before cargo: cargo decides freshness by comparing source modification times with the
    time of the last build in the shared target directory, and records source paths relative to the package root -- a copy spliced
    while another check was still building would otherwise look older than that build and be served the other copy's artifact"""
    time.sleep(0.02)
    for sub in ('src', 'tests', 'Cargo.toml', 'build.rs'):
        q = os.path.join(d, sub)
        if os.path.isfile(q):
            os.utime(q, None)
        for root, _, files in os.walk(q):
            for fn in files:
                os.utime(os.path.join(root, fn), None)


def _run(cmd, cwd, env, timeout):
    try:
        p = subprocess.run(cmd, cwd=cwd, env=env, capture_output=True, text=True, timeout=timeout)
        return p.returncode, p.stdout + p.stderr
    except subprocess.TimeoutExpired as e:
        return 124, (e.stdout or '') + (e.stderr or '') if isinstance(e.stdout, str) else 'timeout'


def run_kani(harnesses, scratch, repo, log, jobs=8, per_harness_timeout='30m', label='kani'):
    t0 = time.time()
    res = {'unit': label, 'backend': 'kani', 'status': 'undecided', 'checks': [], 'failures': [], 'reason': '', 'assumptions': []}
    d = os.path.join(scratch, 'kani')
    try:
        sp = splice.splice(repo, d, 'kani')
    except splice.SpliceError as e:
        res['reason'] = 'splice: %s' % e
        return res
    env = dict(os.environ, CARGO_NET_OFFLINE='true', CARGO_TARGET_DIR=os.path.join(CACHE, 'kani-target'))
    os.makedirs(CACHE, exist_ok=True)
    cmd = ['cargo', 'kani', '-Z', 'stubbing', '-Z', 'function-contracts', '-Z', 'unstable-options',
           '--harness-timeout', per_harness_timeout, '--output-format=terse', '-j', str(jobs)]
    for h in harnesses:
        cmd += ['--harness', h]
    res['cmd'] = ' '.join(cmd)
    with _CacheLock('kani-target'):
        _fresh_mtimes(d)
        rc, out = _run(cmd, d, env, 6 * 3600)
    res['raw_tail'] = out[-3000:]
    m = re.search(r'Complete - (\d+) successfully verified harnesses, (\d+) failures, (\d+) total', out)
    if not m:
        res['reason'] = 'kani produced no summary (compile error or crash): ' + out[-1500:]
        return res
    failed = set(re.findall(r'Verification failed for - (\S+)', out))
    covers = re.findall(r'\*\* (\d+) of (\d+) cover properties satisfied', out)
    if not failed and (len(covers) < len(harnesses) or any(a != b for a, b in covers)):
        res['reason'] = 'vacuity guard: a harness end is unreachable or a cover is missing (%s)' % covers
        return res
    timed = set(re.findall(r'[Tt]imed? ?out[^\n]*?- (\S+)', out))
    # per-harness time: "Thread k: Checking harness X..." then result block with "Verification Time: Ns"
    cur = {}
    times = {}
    for line in out.split('\n'):
        mm = re.match(r'(Thread \d+): Checking harness (\S+?)\.\.\.', line)
        if mm:
            cur[mm.group(1)] = mm.group(2)
    checked = set(cur.values())
    total = int(m.group(3))
    if total != len(harnesses):
        res['reason'] = 'kani ran %d harnesses, %d requested (lost anchor: harness name)' % (total, len(harnesses))
        return res
    for h in harnesses:
        full = [c for c in checked if c.endswith('::' + h) or c == h]
        name = full[0] if full else h
        bad = any(f.endswith('::' + h) or f == h for f in failed)
        tout = any(f.endswith('::' + h) or f == h for f in timed)
        res['checks'].append({'name': 'kani:' + name, 'ok': not bad and not tout, 'detail': 'timeout' if tout else ''})
        if tout:
            res.setdefault('undecided', []).append({'unit': label, 'function': h, 'kind': 'kani timeout'})
        elif bad:
            # counterexample
            # counterexample by concrete playback: only for the first failing harness (it re-runs the solver), time-boxed
            if len(res['failures']) == 0:
                rc2, out2 = _run(['cargo', 'kani', '-Z', 'stubbing', '-Z', 'function-contracts', '-Z', 'concrete-playback',
                                  '--concrete-playback=print', '--harness', h], d, env, 1200)
            else:
                out2 = out
            cex = ''
            mm = re.search(r'Concrete playback unit test for[^\n]*\n(.*?)(?:\nINFO:|\nManual Harness Summary|\Z)', out2, flags=re.S)
            if mm:
                cex = mm.group(1)[:4000]
            failedchecks = re.findall(r'Failed Checks: ([^\n]*)', out2) or re.findall(r'Failed Checks: ([^\n]*)', out)
            res['failures'].append({'unit': label, 'function': h, 'kind': 'kani: ' + '; '.join(failedchecks[:3]),
                                    'clause': '; '.join(failedchecks[:3]), 'rendered': out2[-2500:], 'counterexample': cex or None,
                                    'backend': 'kani', 'tags': []})
    res['wall_s'] = time.time() - t0
    res['smt_ms'] = 0
    res['spliced'] = sp
    res['assumptions'] = ['Kani/CBMC/CaDiCaL and rustc; harness modules spliced as cfg(kani) child modules (diff-checked)']
    if res['failures']:
        res['status'] = 'failed'
    elif res.get('undecided'):
        res['status'] = 'undecided'
        res['reason'] = 'kani timeout: ' + ', '.join(u['function'] for u in res['undecided'])
    else:
        res['status'] = 'ok'
    return res


def run_native(tests, scratch, repo, log, label='native', kind='native', threads=8):
    """closed ground facts evaluated natively on the real code (reported as evaluated, not proved)"""
    t0 = time.time()
    res = {'unit': label, 'backend': 'native-eval', 'status': 'undecided', 'checks': [], 'failures': [], 'reason': '', 'assumptions': []}
    d = os.path.join(scratch, kind)
    modname = 'verif_native' if kind == 'native' else 'verif_replay'
    try:
        splice.splice(repo, d, kind)
    except splice.SpliceError as e:
        res['reason'] = 'splice: %s' % e
        return res
    env = dict(os.environ, CARGO_NET_OFFLINE='true', CARGO_TARGET_DIR=os.path.join(CACHE, 'native-target'))
    os.makedirs(CACHE, exist_ok=True)
    # only the named tests (libtest takes several filters after `--`)
    cmd = ['cargo', 'test', '--offline', '--'] + ['%s::%s' % (modname, t) for t in tests] + ['--test-threads', str(threads)]
    res['cmd'] = ' '.join(cmd)
    with _CacheLock('native-target'):
        _fresh_mtimes(d)
        rc, out = _run(cmd, d, env, 3600)
    for t in tests:
        m = re.search(r'test \S*' + modname + r'::' + re.escape(t) + r' \.\.\. (\w+)', out)
        if not m:
            res['reason'] = 'native test %s did not run: %s' % (t, out[-800:])
            return res
        ok = m.group(1) == 'ok'
        res['checks'].append({'name': 'native:' + t, 'ok': ok, 'detail': 'evaluated on the real code, not proved'})
        if not ok:
            mm = re.search(r'---- \S*' + modname + r'::' + re.escape(t) + r' stdout ----\n(.*?)(?:\n----|\nfailures:)', out, flags=re.S)
            res['failures'].append({'unit': label, 'function': t, 'kind': 'native evaluation failed', 'clause': t,
                                    'rendered': (mm.group(1) if mm else out[-1500:])[:3000], 'counterexample': (mm.group(1) if mm else None),
                                    'backend': 'native-eval', 'tags': []})
    res['wall_s'] = time.time() - t0
    res['status'] = 'failed' if res['failures'] else 'ok'
    res['assumptions'] = ['native evaluation of closed ground facts (finite, complete, but executed not proved)']
    return res


def run(prop, pc, scratch, tier, seed, repo, verif, log):
    out = []
    k = pc.get('kani')
    if k:
        hs = list(k.get('quick', []))
        if tier == 'thorough':
            hs += k.get('thorough', [])
        # quick tier may sample from a pool of complete sub-proofs (VERIF_SEED picks which)
        pool = k.get('quick_sample_pool', [])
        if tier == 'quick' and pool:
            import random
            rnd = random.Random(seed)
            hs += rnd.sample(pool, min(k.get('quick_sample_n', 0), len(pool)))
        if hs:
            out.append(run_kani(hs, scratch, repo, log, jobs=k.get('jobs', 8), per_harness_timeout=k.get('timeout', '30m')))
    n = pc.get('native')
    if n:
        out.append(run_native(n, scratch, repo, log))
    return out


def replay_search(tests, scratch, repo, log):
    """native replay search (kx/replay/*.rs): concrete counterexamples on the real code; never proves anything.
    Tests named c11_* run on a copy in which result caching is neutralised by one mechanical edit (the property's hypothesis)."""
    plain = [t for t in tests if not t.startswith('c11_')]
    nocache = [t for t in tests if t.startswith('c11_')]
    r = run_native(plain, scratch, repo, log, label='replay-search', kind='replay', threads=1) if plain else None
    if nocache:
        r2 = run_native(nocache, scratch, repo, log, label='replay-search', kind='replay-nocache', threads=1)
        if r is None:
            r = r2
        else:
            r['checks'] += r2['checks']; r['failures'] += r2['failures']
            if r2['status'] != 'ok' and r['status'] == 'ok':
                r['status'] = r2['status']; r['reason'] = r2.get('reason', '')
    return r
