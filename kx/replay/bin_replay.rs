//! Native replay search at process level (integration test of the scratch copy: drives the real engine binary over
//! stdin/stdout). Used like the other replay tests: a failing run is a concrete counterexample on the real code, a
//! passing run proves nothing.
mod verif_replay {
    use std::io::{BufRead, BufReader, Write};
    use std::process::{Child, ChildStdin, Command, Stdio};
    use std::sync::mpsc::{channel, Receiver};
    use std::time::Duration;

    struct Engine { child: Child, stdin: Option<ChildStdin>, rx: Receiver<String> }
    impl Engine {
        fn start() -> Engine {
            let mut child = Command::new(env!("CARGO_BIN_EXE_rust_chess_engine")).stdin(Stdio::piped()).stdout(Stdio::piped())
                .stderr(Stdio::null()).spawn().expect("engine starts");
            let stdin = child.stdin.take().unwrap();
            let out = child.stdout.take().unwrap();
            let (tx, rx) = channel();
            std::thread::spawn(move || { for l in BufReader::new(out).lines() { if let Ok(l) = l { if tx.send(l).is_err() { break; } } else { break; } } });
            Engine { child, stdin: Some(stdin), rx }
        }
        fn raw(&mut self, b: &[u8]) { let i = self.stdin.as_mut().unwrap(); i.write_all(b).unwrap(); i.write_all(b"\n").unwrap(); i.flush().unwrap(); }
        fn send(&mut self, s: &str) { self.raw(s.as_bytes()); }
        fn close_input(&mut self) { self.stdin.take(); }
        /// lines up to and including the one starting with `last` (None on time-out)
        fn until(&mut self, last: &str, secs: u64) -> Option<Vec<String>> {
            let mut v = vec![];
            loop {
                match self.rx.recv_timeout(Duration::from_secs(secs)) {
                    Ok(l) => { let done = l.starts_with(last); v.push(l); if done { return Some(v); } }
                    Err(_) => return None,
                }
            }
        }
    }
    impl Drop for Engine { fn drop(&mut self) { if let Some(i) = self.stdin.as_mut() { let _ = writeln!(i, "quit"); } let _ = self.child.kill(); let _ = self.child.wait(); } }

    fn is_move(t: &str) -> bool {
        let b = t.as_bytes();
        (b.len() == 4 || b.len() == 5) && (b'a'..=b'h').contains(&b[0]) && (b'1'..=b'8').contains(&b[1]) && (b'a'..=b'h').contains(&b[2])
            && (b'1'..=b'8').contains(&b[3]) && (b.len() == 4 || b"qrbn".contains(&b[4]))
    }
    /// UCI grammar of an info line as this engine may print it: known keys, each followed by a well-formed value
    fn check_info(line: &str) -> Result<(u32, Vec<String>), String> {
        let t: Vec<&str> = line.split_whitespace().collect();
        if t.first() != Some(&"info") { return Err("does not start with `info`".into()); }
        let (mut i, mut depth, mut pv, mut score) = (1, None, vec![], false);
        while i < t.len() {
            match t[i] {
                "depth" | "seldepth" | "nodes" | "time" | "nps" | "hashfull" | "multipv" | "currmovenumber" => {
                    let v: u64 = t.get(i + 1).ok_or("missing value")?.parse().map_err(|_| format!("`{} {}` is not a number", t[i], t[i + 1]))?;
                    if t[i] == "depth" { depth = Some(v as u32); }
                    i += 2;
                }
                "score" => {
                    let kind = *t.get(i + 1).ok_or("score without kind")?;
                    if kind != "cp" && kind != "mate" { return Err(format!("score kind `{kind}`")); }
                    let _v: i64 = t.get(i + 2).ok_or("score without value")?.parse().map_err(|_| format!("`score {kind} {}` is not an integer", t[i + 2]))?;
                    score = true;
                    i += 3;
                }
                "pv" => { for m in &t[i + 1..] { if !is_move(m) { return Err(format!("`{m}` in the pv is not a move")); } pv.push(m.to_string()); } i = t.len(); }
                other => return Err(format!("unknown token `{other}`")),
            }
        }
        if !score { return Err("no score".into()); }
        Ok((depth.ok_or("no depth")?, pv))
    }

    const POSITIONS: [&str; 8] = [
        "startpos", "startpos moves e2e4 e7e5 g1f3", "fen r3k2r/p1ppqpb1/bn2pnp1/3PN3/1p2P3/2N2Q1p/PPPBBPPP/R3K2R w KQkq - 0 1",
        "fen 8/8/8/8/8/1q6/2k4P/K7 w - - 0 1", "fen 7k/8/8/8/r7/1r6/8/5K2 w - - 0 1", "fen 6k1/5ppp/8/8/8/8/8/R3K3 w Q - 0 1",
        "fen 8/2p5/3p4/KP5r/1R3p1k/8/4P1P1/8 w - - 0 1", "fen 4k3/8/8/8/8/8/4P3/4K3 w - - 0 1",
    ];

    /// C14 (and the C09 clause "exactly one bestmove"): `go depth N` reports depth 1, 2, ..., N in order, every info line is
    /// valid UCI, then exactly one bestmove; repeated in one session (so what earlier searches cached must not matter)
    #[test]
    fn c14_depth_reports_over_uci() {
        let mut e = Engine::start();
        e.send("uci"); e.until("uciok", 20).expect("uciok");
        for round in 0..2 {
            for (pi, pos) in POSITIONS.iter().enumerate() {
                let n = 2 + (pi + round) % 3;
                e.send(&format!("position {pos}"));
                e.send(&format!("go depth {n}"));
                let lines = e.until("bestmove", 120).unwrap_or_else(|| panic!("C09: no bestmove within 120 s for `position {pos}` / `go depth {n}`"));
                let mut depths = vec![];
                for l in lines.iter().filter(|l| l.starts_with("info")) {
                    match check_info(l) {
                        Ok((d, _)) => depths.push(d),
                        Err(why) => panic!("C14: info line is not valid UCI ({why}): `{l}` (position {pos}, go depth {n})"),
                    }
                }
                let want: Vec<u32> = (1..=n as u32).collect();
                assert!(depths == want, "C14: `go depth {n}` on `position {pos}` (search {} of the session) reported depths {depths:?}, expected {want:?}", round * POSITIONS.len() + pi + 1);
                let bm: Vec<&String> = lines.iter().filter(|l| l.starts_with("bestmove")).collect();
                assert!(bm.len() == 1 && bm[0].split_whitespace().nth(1).map_or(false, |m| is_move(m)), "C09: malformed bestmove answer {bm:?}");
                e.send("isready"); e.until("readyok", 30).expect("C09: engine does not answer isready after a search");
                // the search thread must have finished before the next go is accepted
                std::thread::sleep(Duration::from_millis(150));
            }
        }
        // a depth limit near the ply ceiling (255): every depth up to N must still be reported (a forced mate keeps the tree tiny)
        for n in [254u32, 255] {
            e.send("ucinewgame");
            e.send("position fen 8/1R3P2/2Nk4/3P4/2P4P/3P4/8/6K1 w - - 0 1");
            e.send(&format!("go depth {n}"));
            let lines = e.until("bestmove", 300).unwrap_or_else(|| panic!("C09: no bestmove within 300 s for go depth {n}"));
            let depths: Vec<u32> = lines.iter().filter(|l| l.starts_with("info")).map(|l| check_info(l).unwrap_or_else(|w| panic!("C14: invalid info line ({w}): `{l}`")).0).collect();
            let want: Vec<u32> = (1..=n).collect();
            assert!(depths == want, "C14: `go depth {n}` reported {} depths, the last one {:?}; expected every depth 1..={n}", depths.len(), depths.last());
            e.send("isready"); e.until("readyok", 30).expect("readyok");
            std::thread::sleep(Duration::from_millis(150));
        }
    }

    //@REFRULES

    /// the position a `position ...` command describes, per the reference rules
    fn ref_position(pos: &str) -> refrules::Pos {
        let t: Vec<&str> = pos.split_whitespace().collect();
        let (mut p, mut i) = if t[0] == "startpos" { (refrules::from_fen("rnbqkbnr/pppppppp/8/8/8/8/PPPPPPPP/RNBQKBNR w KQkq - 0 1"), 1) }
            else { let j = t.iter().position(|x| *x == "moves").unwrap_or(t.len()); (refrules::from_fen(&t[1..j].join(" ")), j) };
        if i < t.len() && t[i] == "moves" { i += 1; }
        for m in &t[i..] { let mv = refrules::legal(&p).into_iter().find(|x| x.text() == *m).expect("test position move list is legal"); p = refrules::play(&p, mv); }
        p
    }

    /// C09: every go -- whatever the limits, however small -- is answered by exactly one bestmove naming a legal move of the
    /// current position, in time, and the engine then takes the next command
    #[test]
    fn c09_go_answered_over_uci() {
        let limits = ["depth 1", "depth 2", "nodes 1", "nodes 2", "nodes 57", "movetime 0", "movetime 1", "movetime 40",
                      "wtime 0 btime 0", "wtime 1 btime 1", "wtime 30 btime 30 winc 5 binc 5", "wtime 2000 btime 2000",
                      "depth 3 nodes 10", "nodes 300 movetime 50", "winc 1 binc 1"];
        let mut e = Engine::start();
        e.send("uci"); e.until("uciok", 20).expect("uciok");
        let positions: Vec<&str> = POSITIONS.iter().copied().chain(["fen 7k/8/8/8/1p6/pPp5/PRP5/KB6 b - - 0 1", "fen 4k3/8/8/8/8/8/4q3/4K3 w - - 0 1",
            "fen r3k2r/8/8/8/8/8/8/R3K2R w KQkq - 0 1", "fen 8/P7/8/8/8/8/7p/K6k w - - 0 1"]).collect();
        for (pi, pos) in positions.iter().enumerate() {
            let want = ref_position(pos);
            let legal: Vec<String> = refrules::legal(&want).iter().map(|m| m.text()).collect();
            if legal.is_empty() { continue; }
            for (li, lim) in limits.iter().enumerate() {
                if (pi + li) % 3 != 0 { continue; }   // a third of the grid per position
                e.send(&format!("position {pos}"));
                e.send(&format!("go {lim}"));
                let lines = e.until("bestmove", 60).unwrap_or_else(|| panic!("C09: `go {lim}` on `position {pos}` was not answered within 60 s"));
                let bm = lines.last().unwrap().split_whitespace().nth(1).unwrap_or("").to_string();
                assert!(legal.contains(&bm), "C09: `go {lim}` on `position {pos}` answered `{}`: not a legal move of the position (legal: {legal:?})", lines.last().unwrap());
                // exactly one: nothing else that starts with bestmove arrives before the engine answers isready
                std::thread::sleep(Duration::from_millis(120));
                e.send("isready");
                let rest = e.until("readyok", 30).unwrap_or_else(|| panic!("C09: engine does not answer isready after `go {lim}` on `position {pos}`"));
                assert!(!rest.iter().any(|l| l.starts_with("bestmove")), "C09: a second bestmove line after `go {lim}` on `position {pos}`: {rest:?}");
            }
        }
        // consecutive go commands in one session: a search of A fills the cache; then every position two plies below A is
        // searched with a budget too small to finish the first iteration -- the answer must still be a legal move of THAT position
        for a in ["fen 8/5ppk/7p/8/2P1PQ2/8/Pr2N1KR/8 w - - 0 40", "fen 6k1/5ppp/8/8/1b6/8/r2N1PPP/4R1K1 w - - 0 1",
                  "fen 4r1k1/5ppp/8/8/7q/8/4BPP1/4R1K1 w - - 0 1", "fen r3k2r/8/8/8/8/8/8/R3K2R w KQkq - 0 1"] {
            e.send("ucinewgame"); e.send(&format!("position {a}")); e.send("go depth 4");
            e.until("bestmove", 300).unwrap_or_else(|| panic!("C09: `go depth 4` on `position {a}` was not answered within 300 s"));
            std::thread::sleep(Duration::from_millis(120));
            let pa = ref_position(a);
            let mut tried = 0;
            'lines: for m1 in refrules::legal(&pa) {
                let p1 = refrules::play(&pa, m1);
                for m2 in refrules::legal(&p1) {
                    let p2 = refrules::play(&p1, m2);
                    let legal: Vec<String> = refrules::legal(&p2).iter().map(|m| m.text()).collect();
                    if legal.is_empty() { continue; }
                    // positions where the mover is restricted (in check, or few moves) are the interesting ones; sample the rest
                    if legal.len() > 8 && (tried % 5 != 0) { tried += 1; continue; }
                    tried += 1;
                    let lim = ["nodes 1", "movetime 0", "depth 3 nodes 2", "wtime 1 btime 1"][tried % 4];
                    e.send(&format!("position {a} moves {} {}", m1.text(), m2.text())); e.send(&format!("go {lim}"));
                    let lines = e.until("bestmove", 60).unwrap_or_else(|| panic!("C09: `go {lim}` after `position {a} moves {} {}` was not answered", m1.text(), m2.text()));
                    let bm = lines.last().unwrap().split_whitespace().nth(1).unwrap_or("").to_string();
                    assert!(legal.contains(&bm), "C09: session `position {a}` / `go depth 4` / `position {a} moves {} {}` / `go {lim}` answered `{}`: not a legal move of the current position (legal: {legal:?})",
                        m1.text(), m2.text(), lines.last().unwrap());
                    // the search thread must be gone before the next go is accepted
                    e.send("isready"); e.until("readyok", 30).expect("readyok");
                    std::thread::sleep(Duration::from_millis(15));
                    if tried > 1200 { break 'lines; }
                }
            }
        }
        // the clock budget is the mover's own: time/20 + increment/2 (15 ms here) -- allow 8 s of scheduling slack
        for (pos, lim) in [("startpos moves e2e4", "wtime 300 btime 300 winc 20000 binc 0"), ("startpos", "wtime 300 btime 300 winc 0 binc 20000"),
                           ("startpos moves e2e4", "wtime 200000 btime 300"), ("startpos", "wtime 300 btime 200000")] {
            e.send(&format!("position {pos}")); e.send(&format!("go {lim}"));
            let t0 = std::time::Instant::now();
            e.until("bestmove", 8).unwrap_or_else(|| panic!("C09: `go {lim}` on `position {pos}` (budget 15 ms for the side to move) was not answered within 8 s"));
            assert!(t0.elapsed() < Duration::from_secs(8), "C09: `go {lim}` on `position {pos}` (budget 15 ms for the side to move) was answered only after {:?}", t0.elapsed());
            std::thread::sleep(Duration::from_millis(120));
            e.send("isready"); e.until("readyok", 30).expect("readyok");
        }
        // go infinite is answered once stop arrives
        e.send("position startpos"); e.send("go infinite");
        std::thread::sleep(Duration::from_millis(300));
        e.send("stop");
        let lines = e.until("bestmove", 30).expect("C09: stop does not end `go infinite` with a bestmove");
        assert!(is_move(lines.last().unwrap().split_whitespace().nth(1).unwrap_or("")), "C09: malformed bestmove after stop");
    }

    /// C15: no input line kills or wedges the engine: after each malformed line it still answers isready, and quit ends it
    #[test]
    fn c15_bad_input_over_uci() {
        let lines: Vec<Vec<u8>> = vec![
            b"go wtime".to_vec(), b"go depth".to_vec(), b"go depth x".to_vec(), b"go nodes -1".to_vec(), b"go movetime 99999999999999999999999".to_vec(),
            b"go wtime 1 btime".to_vec(), b"go mate".to_vec(), b"go searchmoves".to_vec(), b"go ponder ponder".to_vec(),
            b"setoption".to_vec(), b"setoption name".to_vec(), b"setoption name value".to_vec(), b"setoption value 1 name Hash".to_vec(),
            b"setoption name Hash value".to_vec(), b"setoption name  value  ".to_vec(), b"setoption name a name b value c value d".to_vec(),
            b"position".to_vec(), b"position fen".to_vec(), b"position startpos moves".to_vec(), b"position startpos moves e2e5".to_vec(),
            b"position startpos moves zz".to_vec(), b"position moves e2e4".to_vec(), b"position fen moves".to_vec(),
            // the FEN argument dropped altogether (an invalid FEN text is outside the property: "FEN arguments are assumed to be valid FEN")
            // (fewer than six tokens follow `fen`: with six or more the engine takes them for the FEN itself)
            b"position fen moves e2e4 e7e5 g1f3".to_vec(), b"position fen moves e2e4".to_vec(), b"position fen 8/8/8/8/8/8/8/8 w".to_vec(),
            b"go wtime 60000 btime 60000 movestogo 0".to_vec(), b"go movestogo 0".to_vec(), b"go wtime 0 btime 0 winc 0 binc 0 movestogo 0".to_vec(),
            b"go depth 0".to_vec(), b"go nodes 0".to_vec(), b"go depth 300".to_vec(), b"go wtime -5 btime -5".to_vec(),
            b"".to_vec(), b"   ".to_vec(), b"\t".to_vec(), b"xyzzy".to_vec(), b"uci uci uci".to_vec(), b"isready now".to_vec(), b"stop".to_vec(), b"ponderhit".to_vec(),
            b"debug".to_vec(), b"debug maybe".to_vec(), b"register".to_vec(), b"ucinewgame extra".to_vec(),
            vec![0xff, 0xfe, b'g', b'o'], vec![b'g', b'o', b' ', 0xc3, 0x28], "go d\u{e9}pth 3".as_bytes().to_vec(),
            std::iter::repeat(b'a').take(5000).collect(), [b"position startpos moves ".to_vec(), b"e2e4 e7e5 ".repeat(400)].concat(),
        ];
        let mut e = Engine::start();
        e.send("uci"); e.until("uciok", 20).expect("uciok");
        for l in lines.iter() {
            e.raw(l);
            e.send("isready");
            if e.until("readyok", 20).is_none() {
                let st = e.child.try_wait().ok().flatten();
                panic!("C15: after the input line {:?} the engine no longer answers isready (exit status {st:?})", String::from_utf8_lossy(l));
            }
        }
        // a position that was loaded before the noise is still usable
        e.send("position startpos moves e2e4"); e.send("go depth 1");
        e.until("bestmove", 30).expect("C15: engine does not search after malformed input");
        e.send("quit");
        let mut ended = false;
        for _ in 0..50 { if e.child.try_wait().unwrap().is_some() { ended = true; break; } std::thread::sleep(Duration::from_millis(100)); }
        assert!(ended, "C15: quit does not end the engine within 5 s");
        // end of input: while idle, and while a search is running
        for running in [false, true] {
            let mut e = Engine::start();
            e.send("uci"); e.until("uciok", 20).expect("uciok");
            e.send("position startpos");
            if running { e.send("go infinite"); std::thread::sleep(Duration::from_millis(300)); }
            e.close_input();
            let mut ended = false;
            for _ in 0..80 { if e.child.try_wait().unwrap().is_some() { ended = true; break; } std::thread::sleep(Duration::from_millis(100)); }
            assert!(ended, "C15: the engine does not end within 8 s when its input is closed (search running: {running})");
        }
    }

    /// C16 (bench clause; thorough tier only -- a debug-build bench takes a few minutes): the built-in bench prints the same
    /// node total every time, also when two runs compete for the CPU
    #[test]
    fn c16_bench_total_repeatable() {
        if !std::env::var("VERIF_TIER").map(|t| t == "thorough").unwrap_or(false) { return; }
        let run = || Command::new(env!("CARGO_BIN_EXE_rust_chess_engine")).arg("bench").stdin(Stdio::null()).stdout(Stdio::piped()).stderr(Stdio::null()).spawn().expect("bench starts");
        let nodes = |c: Child| -> String {
            let out = c.wait_with_output().expect("bench ends");
            let text = String::from_utf8_lossy(&out.stdout).to_string();
            text.lines().find(|l| l.trim_end().ends_with(" nodes")).unwrap_or_else(|| panic!("C16: bench printed no node total: {text}")).trim().to_string()
        };
        let (a, b) = (run(), run());            // two runs at the same time
        let (na, nb) = (nodes(a), nodes(b));
        let nc = nodes(run());                  // and one alone
        assert!(na == nb && nb == nc, "C16: the bench node total is not repeatable: `{na}` and `{nb}` (concurrent runs), `{nc}` (alone)");
    }
}
