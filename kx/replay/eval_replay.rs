//! Native replay search for C17 (child module of evaluate::simple_evaluator)
use super::*;
use crate::board::piece::Color;
use crate::board::BoardBuilder;

struct Rng(u64);
impl Rng { fn next(&mut self) -> u64 { self.0 ^= self.0 << 13; self.0 ^= self.0 >> 7; self.0 ^= self.0 << 17; self.0 } }

/// a board with the given twelve piece sets (w: P N B R Q K, b: P N B R Q K) and side to move
fn board_of(bb: [u64; 12], turn: Color) -> Board {
    BoardBuilder::construct_empty_board()
        .pawns(Color::White, bb[0]).knights(Color::White, bb[1]).bishops(Color::White, bb[2])
        .rooks(Color::White, bb[3]).queens(Color::White, bb[4]).king(Color::White, bb[5])
        .pawns(Color::Black, bb[6]).knights(Color::Black, bb[7]).bishops(Color::Black, bb[8])
        .rooks(Color::Black, bb[9]).queens(Color::Black, bb[10]).king(Color::Black, bb[11])
        .turn(turn)
        .build()
}
fn mirror(bb: [u64; 12]) -> [u64; 12] {
    let mut m = [0u64; 12];
    for i in 0..6 { m[i] = bb[i + 6].swap_bytes(); m[i + 6] = bb[i].swap_bytes(); }
    m
}

#[test]
fn c17_symmetry() {
    let seed = std::env::var("VERIF_SEED").ok().and_then(|s| s.parse::<u64>().ok()).unwrap_or(0);
    let mut rng = Rng(seed ^ 0xD1B5_4A32_D192_ED03);
    for case in 0..4000 {
        // random placement: up to 15 non-king pieces per side on distinct squares, one king each; material mixes of all kinds
        let mut used = 0u64;
        let mut bb = [0u64; 12];
        let mut pick = |rng: &mut Rng, used: &mut u64| loop { let s = 1u64 << (rng.next() % 64); if *used & s == 0 { *used |= s; return s; } };
        bb[5] = pick(&mut rng, &mut used);
        bb[11] = pick(&mut rng, &mut used);
        for side in 0..2 {
            let n = (rng.next() % 16) as usize;
            for _ in 0..n {
                let k = if case % 3 == 0 { 4 } else { (rng.next() % 5) as usize }; // every third case: queens only (many queens)
                bb[side * 6 + k] |= pick(&mut rng, &mut used);
            }
        }
        for turn in [Color::White, Color::Black] {
            let e = SimpleEvaluator.evaluate(&mut board_of(bb, turn));
            let e_mirror = SimpleEvaluator.evaluate(&mut board_of(mirror(bb), turn.opposite()));
            let e_other = SimpleEvaluator.evaluate(&mut board_of(bb, turn.opposite()));
            assert!(e == e_mirror, "C17: evaluation {e} but the colour-mirrored position evaluates to {e_mirror}; boards {bb:x?} turn {turn:?}");
            assert!(e == -e_other, "C17: evaluation {e} but with the other side to move {e_other}; boards {bb:x?} turn {turn:?}");
        }
    }
}
