//! Native replay search for C13 / C16 (child module of `search`; touches the process-wide cache: run single-threaded)
use super::*;
use crate::evaluate::simple_evaluator::SimpleEvaluator;

fn clear() { TRANSPOSITION_TABLE.write().unwrap().clear(); }
fn is_mate(s: Score) -> bool { s <= Score::MIN + 300 || s >= Score::MAX - 300 }
fn fresh_value(p: &Board, depth: Depth) -> Score {
    clear();
    let mut s = Search::new(p, None);
    let d = if depth > 0 && p.clone().is_in_check(p.current_turn) { depth - 1 } else { depth };
    s.alpha_beta(&SimpleEvaluator, Score::MIN, Score::MAX, d, Instant::now())
}
const ROOTS: [&str; 3] = [
    "r1bqkbnr/pppp1ppp/2n5/4p3/2B1P3/5N2/PPPP1PPP/RNBQK2R b KQkq - 3 3",
    "r3k2r/p1ppqpb1/bn2pnp1/3PN3/1p2P3/2N2Q1p/PPPBBPPP/R3K2R w KQkq - 0 1",
    "8/2p5/3p4/KP5r/1R3p1k/8/4P1P1/8 w - - 0 1",
];

/// C13: after a node-limited (aborted) search every cache entry for a position near the root must be consistent with what
/// an uninterrupted search of that position to that depth computes
#[test]
fn c13_aborted_search_cache_is_sound() {
    let seed = std::env::var("VERIF_SEED").ok().and_then(|s| s.parse::<u64>().ok()).unwrap_or(0);
    for (ri, fen) in ROOTS.iter().enumerate() {
        let root = Board::from_fen(fen);
        let mut positions = vec![root.clone()];
        let mut b = root.clone();
        for m in b.get_legal_moves() {
            b.make_move(m);
            positions.push(b.clone());
            for m2 in b.get_legal_moves() {
                b.make_move(m2);
                positions.push(b.clone());
                if ri == 0 {
                    for m3 in b.get_legal_moves() { b.make_move(m3); positions.push(b.clone()); b.unmake_move(); }
                }
                b.unmake_move();
            }
            b.unmake_move();
        }
        let step: usize = std::env::var("VERIF_C13_STEP").ok().and_then(|s| s.parse().ok()).unwrap_or(29);
        let upto: u64 = std::env::var("VERIF_C13_UPTO").ok().and_then(|s| s.parse().ok()).unwrap_or(900);
        let start_n = 1 + seed % (step.min(13) as u64);
        for n in (start_n..upto).step_by(step) {
            clear();
            let mut s = Search::new(&root, Some(SearchLimits::new().nodes(Some(n))));
            s.start();
            let start = Instant::now();
            for d in 1..=4 {
                s.alpha_beta_start(&SimpleEvaluator, d, start);
                if !s.is_running() || s.limits_exceeded(start) { break; }
            }
            let snapshot: Vec<(crate::board::zkey::ZKey, TTEntry)> =
                TRANSPOSITION_TABLE.read().unwrap().iter().map(|(k, v)| (*k, *v)).collect();
            for p in &positions {
                if let Some((_, e)) = snapshot.iter().find(|(k, _)| *k == p.zkey) {
                    if !is_mate(e.score) {
                        let truth = fresh_value(p, e.depth);
                        let consistent = match e.bound { Bounds::Exact => truth == e.score, Bounds::Lower => truth >= e.score, Bounds::Upper => truth <= e.score };
                        assert!(consistent || is_mate(truth),
                            "C13: go nodes {n} from {fen}: cache holds {:?} {} at depth {} for key {}, an uninterrupted search of that position gives {}",
                            e.bound, e.score, e.depth, p.zkey, truth);
                    }
                }
            }
        }
    }
    clear();
}

/// C13, whole cache: like the test above, but EVERY entry left behind by a node-limited search whose position lies within three
/// plies of the root (four for the sparsest root) is compared with an uninterrupted search of that position to that depth,
/// for a dense sweep of node budgets (a cut inside a re-search or deep in the principal variation leaves its mark far from the root)
#[test]
fn c13_every_cached_entry_is_sound() {
    use std::collections::HashMap;
    let seed = std::env::var("VERIF_SEED").ok().and_then(|s| s.parse::<u64>().ok()).unwrap_or(0);
    let thorough = std::env::var("VERIF_TIER").map(|t| t == "thorough").unwrap_or(false);
    let roots: [(&str, usize); 3] = [
        ("4q1bk/6b1/7p/p1p4p/PNPpP2P/KN4P1/3Q4/4R3 b - - 0 37", 3),
        ("8/2p5/3p4/KP5r/1R3p1k/8/4P1P1/8 w - - 0 1", 4),
        ("6k1/5ppp/8/8/1b6/8/r2N1PPP/4R1K1 w - - 0 1", 3),
    ];
    fn walk(b: &mut Board, left: usize, out: &mut HashMap<crate::board::zkey::ZKey, Board>) {
        out.entry(b.zkey).or_insert_with(|| b.clone());
        if left == 0 { return; }
        for m in b.get_legal_moves() { b.make_move(m); walk(b, left - 1, out); b.unmake_move(); }
    }
    for (fen, plies) in roots.iter() {
        let root = Board::from_fen(fen);
        let mut near: HashMap<crate::board::zkey::ZKey, Board> = HashMap::new();
        walk(&mut root.clone(), *plies, &mut near);
        // size of the uninterrupted depth-3 search: budgets beyond it cut nothing
        clear();
        let mut full = Search::new(&root, None);
        full.start();
        let t0 = Instant::now();
        for d in 1..=3 { full.alpha_beta_start(&SimpleEvaluator, d, t0); }
        let total = full.info.nodes;
        let step = if thorough { 3 } else { 11 };
        let mut truth_cache: HashMap<(crate::board::zkey::ZKey, Depth), Score> = HashMap::new();
        for n in ((1 + seed % step)..total).step_by(step as usize) {
            clear();
            let mut s = Search::new(&root, Some(SearchLimits::new().nodes(Some(n))));
            s.start();
            let start = Instant::now();
            for d in 1..=3 {
                s.alpha_beta_start(&SimpleEvaluator, d, start);
                if !s.is_running() || s.limits_exceeded(start) { break; }
            }
            let snapshot: Vec<(crate::board::zkey::ZKey, TTEntry)> = TRANSPOSITION_TABLE.read().unwrap().iter().map(|(k, v)| (*k, *v)).collect();
            for (k, e) in snapshot.iter() {
                if is_mate(e.score) { continue; }
                if let Some(p) = near.get(k) {
                    let truth = *truth_cache.entry((*k, e.depth)).or_insert_with(|| fresh_value(p, e.depth));
                    let consistent = match e.bound { Bounds::Exact => truth == e.score, Bounds::Lower => truth >= e.score, Bounds::Upper => truth <= e.score };
                    assert!(consistent || is_mate(truth),
                        "C13: go nodes {n} from {fen}: cache holds {:?} {} at depth {} for key {}, an uninterrupted search of that position gives {}",
                        e.bound, e.score, e.depth, k, truth);
                }
            }
        }
    }
    clear();
}

/// C16: the same position searched to the same depth from an empty cache gives the same best move, score and node count,
/// whatever was searched before in this process
#[test]
fn c16_repeatable_from_empty_cache() {
    let run = |b: &Board, depth: Depth| {
        clear();
        let mut s = Search::new(b, None);
        s.search(&SimpleEvaluator, Some(depth));
        (s.info.best_move, s.info.best_score, s.info.nodes)
    };
    for fen in ROOTS.iter() {
        let root = Board::from_fen(fen);
        let first = run(&root, 3);
        let again = run(&root, 3);
        assert!(first == again, "C16: two searches of {fen} to depth 3 from an empty cache differ: {first:?} vs {again:?}");
        // a child position, before and after its parent was searched in this process
        let mut child = root.clone();
        let m = child.get_legal_moves()[0];
        child.make_move(m);
        let c1 = run(&child, 3);
        let _ = run(&root, 3);
        let c2 = run(&child, 3);
        assert!(c1 == c2, "C16: searching {fen} + {m} to depth 3 gives {c1:?}, but {c2:?} after the parent position was searched earlier in the process");
    }
    // a game continued move by move (startpos e2e4 e7e5, then g1f3 b8c6)
    let mut g = Board::from_fen("rnbqkbnr/pppppppp/8/8/8/8/PPPPPPPP/RNBQKBNR w KQkq - 0 1");
    for mv in ["e2e4", "e7e5"] { let p = g.find_move(mv).unwrap(); g.make_move(p); }
    let mut h = g.clone();
    for mv in ["g1f3", "b8c6"] { let p = h.find_move(mv).unwrap(); h.make_move(p); }
    let fresh = run(&h, 4);
    let _ = run(&g, 4);
    let after = run(&h, 4);
    assert!(fresh == after, "C16: position after e2e4 e7e5 g1f3 b8c6 searched to depth 4: {fresh:?} fresh, {after:?} after the position two plies earlier was searched");
    clear();
}

// ---- C11: a reference minimax of the engine's own look-ahead game, written from the property statement (no pruning, no
// ordering, no cache), against the value the real search records for the root
fn ref_quiesce(b: &mut Board, ply: i32) -> i32 {
    let mut best = i32::from(SimpleEvaluator.evaluate(b));
    for m in b.get_legal_moves() {
        if !m.is_capture() { continue; }
        b.make_move(m);
        let v = -ref_quiesce(b, ply + 1);
        b.unmake_move();
        if v > best { best = v; }
    }
    best
}
fn ref_mm(b: &mut Board, depth: i32, ply: i32) -> i32 {
    if b.get_halfmove_clock() >= 100 { return 0; }
    if b.position_reached(b.zkey) { return 0; }
    let chk = b.is_in_check(b.current_turn);
    let d = if chk { depth + 1 } else { depth };
    if d <= 0 { return ref_quiesce(b, ply); }
    let moves = b.get_legal_moves();
    if moves.is_empty() { return if chk { i32::from(Score::MIN) + ply } else { 0 }; }
    let mut best = i32::MIN;
    for m in moves {
        b.make_move(m);
        let v = -ref_mm(b, d - 1, ply + 1);
        b.unmake_move();
        if v > best { best = v; }
    }
    best
}
// sparse positions: the reference quiescence is exhaustive, so little may be capturable
const C11_ROOTS: [&str; 22] = [
    "8/2p5/3p4/KP5r/1R3p1k/8/4P1P1/8 w - - 0 1",
    "6k1/5ppp/8/8/8/8/8/R3K3 w Q - 0 1",
    "7k/8/8/8/r7/1r6/8/5K2 w - - 0 1",
    "8/8/8/8/8/1q6/2k4P/K7 w - - 0 1",
    "4k3/P6P/8/8/8/8/p6p/4K3 w - - 0 1",
    "4k3/3p4/8/4P3/8/8/8/4K3 b - - 0 1",
    "8/8/4k3/8/2p5/8/B2P4/4K3 w - - 98 60",
    "3k4/8/3K4/8/8/8/8/R7 w - - 0 1",
    "8/5k2/8/3b4/8/2N5/8/4K2R w K - 0 1",
    "2r3k1/5ppp/8/8/8/8/5PPP/2R3K1 w - - 0 1",
    "8/8/8/3k4/8/2n1K3/4P3/8 w - - 0 1",
    "5rk1/6pp/8/8/8/8/1Q6/6K1 w - - 0 1",
    "k7/8/1K6/8/8/8/8/2Q5 w - - 0 1",
    "7k/8/6K1/8/8/8/8/5Q2 w - - 0 1",
    "8/kP6/8/8/3K4/8/4pp2/8 w - - 0 1",
    "6n1/7P/8/2k5/1N6/8/p2K4/8 w - - 0 1",
    "8/8/8/8/7p/5k1K/5p2/8 w - - 0 1",
    "4k3/8/8/8/8/8/1p6/R3K3 b Q - 0 1",
    "r3k3/8/8/8/8/8/8/4K2R w Kq - 0 1",
    "8/3k4/8/8/8/8/3K1R2/r7 w - - 96 50",
    "8/8/8/3k4/8/8/3K1R2/8 b - - 98 50",
    "8/8/8/3k4/8/8/3K1R2/8 w - - 97 50",
];
/// C11: with result caching neutralised (this test runs on a copy in which the one transposition-table probe whose result
/// alpha_beta uses is replaced by "nothing found": kx/splice.py, kind replay-nocache) the recorded root score equals the reference minimax value, and the recorded move attains it
/// very sparse positions that are also searched one ply deeper (reductions and re-search rules only show from depth 4)
const C11_DEEP: [&str; 4] = [
    "8/6p1/8/8/r1k5/7b/8/2K5 w - - 0 1",
    "3k4/8/8/8/1K6/6np/8/8 w - - 0 1",
    "8/8/4P3/8/4B3/K3kP2/8/8 b - - 0 1",
    "8/8/3k2P1/8/R7/8/K7/8 b - - 0 1",
];
fn c11_compare(fen: &str, depth: Depth) {
    let root = Board::from_fen(fen);
    if root.clone().get_legal_moves().is_empty() { return; }
    clear();
    let mut s = Search::new(&root, None);
    s.start();
    let mv = s.alpha_beta_start(&SimpleEvaluator, depth, Instant::now());
    let got = i32::from(s.info.best_score.expect("completed iteration records a score"));
    // the reference: the root itself has neither draw test nor check extension (alpha_beta_start); children at ply 1
    let mut b = root.clone();
    let mut want = i32::MIN;
    let mut of_mv = i32::MIN;
    for m in b.get_legal_moves() {
        b.make_move(m);
        let v = -ref_mm(&mut b, i32::from(depth) - 1, 1);
        b.unmake_move();
        if v > want { want = v; }
        if m == mv { of_mv = v; }
    }
    assert!(got == want, "C11: {fen} depth {depth}: the search records {got}, the minimax value of the look-ahead game is {want}");
    assert!(of_mv == want, "C11: {fen} depth {depth}: the move on record ({mv}) is worth {of_mv}, the best move is worth {want}");
}
#[test]
fn c11_root_value_is_minimax() {
    let max_depth = if std::env::var("VERIF_TIER").map(|t| t == "thorough").unwrap_or(false) { 4u8 } else { 3u8 };
    for fen in C11_ROOTS.iter() { for depth in 1..=max_depth { c11_compare(fen, depth); } }
    for fen in C11_DEEP.iter() { for depth in 1..=(max_depth + 1) { c11_compare(fen, depth); } }
    clear();
}
