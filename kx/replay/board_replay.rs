//! Native replay search on the real code (child module of `board`): used ONLY (a) to find a concrete failing input after
//! the verifier reported a failed obligation, (b) to look for a concrete refutation when the verifier could not decide.
//! A failure here is a counterexample on the real code; a pass proves nothing and never makes a check pass.
use super::*;
use crate::board::zkey::ZKey;

struct Rng(u64);
impl Rng {
    fn next(&mut self) -> u64 { self.0 ^= self.0 << 13; self.0 ^= self.0 >> 7; self.0 ^= self.0 << 17; self.0 }
    fn below(&mut self, n: usize) -> usize { (self.next() % n as u64) as usize }
}
/// the thorough tier explores four times as many games
fn games(n: usize) -> usize { if std::env::var("VERIF_TIER").map(|t| t == "thorough").unwrap_or(false) { 4 * n } else { n } }
fn seed() -> u64 { std::env::var("VERIF_SEED").ok().and_then(|s| s.parse::<u64>().ok()).unwrap_or(0) ^ 0x9E37_79B9_7F4A_7C15 }

const FENS: [&str; 14] = [
    "rnbqkbnr/pppppppp/8/8/8/8/PPPPPPPP/RNBQKBNR w KQkq - 0 1",
    "r3k2r/p1ppqpb1/bn2pnp1/3PN3/1p2P3/2N2Q1p/PPPBBPPP/R3K2R w KQkq - 0 1",
    "8/2p5/3p4/KP5r/1R3p1k/8/4P1P1/8 w - - 0 1",
    "r3k2r/Pppp1ppp/1b3nbN/nP6/BBP1P3/q4N2/Pp1P2PP/R2Q1RK1 w kq - 0 1",
    "rnbq1k1r/pp1Pbppp/2p5/8/2B5/8/PPP1NnPP/RNBQK2R w KQ - 1 8",
    "r4rk1/1pp1qppp/p1np1n2/2b1p1B1/2B1P1b1/P1NP1N2/1PP1QPPP/R4RK1 w - - 0 10",
    "r3k2r/8/8/8/8/8/8/R3K2R w KQkq - 0 1",
    "r3k2r/8/8/8/8/8/8/R3K2R b KQkq - 0 1",
    "4k3/P6P/8/8/8/8/p6p/4K3 w - - 0 1",
    "rnbqkb1r/ppp1pppp/5n2/3pP3/8/8/PPPP1PPP/RNBQKBNR w KQkq d6 0 3",
    "8/8/8/3k4/8/3K4/8/8 w - - 0 1",
    "4k3/8/8/2pP4/8/8/8/4K3 w - c6 0 2",
    "r1bqk2r/pppp1ppp/2n2n2/2b1p3/2B1P3/2N2N2/PPPP1PPP/R1BQK2R w KQkq - 6 5",
    "7k/8/8/8/1p6/pPp5/PRP5/KB6 b - - 0 1",
];

fn same_board(a: &Board, b: &Board) -> bool { a == b }

/// C02 / C04: random playouts; make+unmake restores the board exactly (derived PartialEq: every field), asking for the
/// legal moves changes nothing, and the incremental key equals the key computed from scratch after every make and unmake
fn playouts(check_c02: bool, check_c04: bool) {
    let mut rng = Rng(seed());
    for (fi, fen) in FENS.iter().enumerate() {
        for game in 0..games(6) {
            let mut b = Board::from_fen(fen);
            let mut line: Vec<String> = vec![];
            for _ply in 0..120 {
                let before = b.clone();
                let moves = b.get_legal_moves();
                if check_c02 { assert!(same_board(&b, &before), "C02: get_legal_moves changed the position: fen {fen} moves {line:?}"); }
                if moves.is_empty() { break; }
                // every legal move: make + unmake
                for m in &moves {
                    b.make_move(*m);
                    if check_c04 { assert!(b.zkey == ZKey::from(&b), "C04: key after make differs from scratch key: fen {fen} moves {line:?} then {m}"); }
                    b.unmake_move();
                    if check_c02 { assert!(same_board(&b, &before), "C02: make+unmake of {m} does not restore the position: fen {fen} moves {line:?}"); }
                    if check_c04 { assert!(b.zkey == ZKey::from(&b), "C04: key after unmake differs from scratch key: fen {fen} moves {line:?} then {m} (unmade)"); }
                }
                let m = moves[rng.below(moves.len())];
                b.make_move(m);
                line.push(m.to_string());
                if b.get_halfmove_clock() >= 100 { break; }
            }
            // unwind the whole game (nested sequence)
            let n = line.len();
            for _ in 0..n { b.unmake_move(); }
            if check_c02 {
                let fresh = Board::from_fen(fen);
                assert!(b.zkey == fresh.zkey && b.current_turn == fresh.current_turn && b.fullmove_counter == fresh.fullmove_counter,
                    "C02: unwinding a whole game does not return to the start: fen {fen} game {fi}/{game} moves {line:?}");
            }
        }
    }
}
#[test]
fn c02_make_unmake_playouts() { playouts(true, false) }
#[test]
fn c04_incremental_key_playouts() { playouts(false, true) }

/// the four components C04 says the key is a function of, as a FEN with the two counters normalised to "0 1" (written here
/// from get_piece / current_turn / the rights of the last record / the en-passant file: no engine serialiser involved)
fn c04_identity_fen(b: &Board) -> String {
    let mut p = refrules::Pos { sq: [None; 64], white: b.current_turn == Color::White, rights: [false; 4], ep: b.en_passant_file, half: 0, full: 1 };
    for i in 0..64u8 { p.sq[i as usize] = b.get_piece(Square::from(i)).map(ref_kind); }
    let r = b.history.last().unwrap().castling_rights;
    p.rights = [r.white_kingside == CastlingStatus::Available, r.white_queenside == CastlingStatus::Available,
                r.black_kingside == CastlingStatus::Available, r.black_queenside == CastlingStatus::Available];
    refrules::to_fen(&p)
}

/// C04: the key is a function of (placement, side to move, rights, en-passant file) and of nothing else: along long seeded
/// playouts (quiet stretches of up to 100 plies included) the key of every position equals the key of the same position
/// loaded from a FEN with normalised counters, positions met again by another route carry the same key, and the counters of a
/// FEN do not enter the key
#[test]
fn c04_key_depends_on_the_position_only() {
    for fen in FENS.iter() {
        let f: Vec<&str> = fen.split_whitespace().collect();
        let k0 = Board::from_fen(fen).zkey;
        for (half, full) in [(0, 1), (7, 30), (50, 60), (79, 100), (80, 100), (99, 5999), (149, 6000)] {
            let g = format!("{} {} {} {} {} {}", f[0], f[1], f[2], f[3], half, full);
            assert!(Board::from_fen(&g).zkey == k0, "C04: the counters of a FEN enter the key: `{g}` against `{fen}`");
        }
    }
    let mut rng = Rng(seed() ^ 0x51ED);
    let mut seen: std::collections::HashMap<String, ZKey> = std::collections::HashMap::new();
    for fen in FENS.iter() {
        for _game in 0..games(4) {
            let mut b = Board::from_fen(fen);
            let mut line: Vec<String> = vec![];
            for _ply in 0..160 {
                let moves = b.get_legal_moves();
                if moves.is_empty() { break; }
                let m = moves[rng.below(moves.len())];
                b.make_move(m);
                line.push(m.to_string());
                let id = c04_identity_fen(&b);
                assert!(Board::from_fen(&id).zkey == b.zkey, "C04: after fen {fen} moves {line:?} the key differs from the key of the same position loaded from `{id}`");
                match seen.get(&id) {
                    Some(k) => assert!(*k == b.zkey, "C04: the position `{id}` has a different key when reached by fen {fen} moves {line:?}"),
                    None => { seen.insert(id, b.zkey); }
                }
                if b.get_halfmove_clock() >= 110 { break; }
            }
            // take everything back: the keys on the way down are those of the way up
            while line.pop().is_some() {
                b.unmake_move();
                let id = c04_identity_fen(&b);
                if let Some(k) = seen.get(&id) { assert!(*k == b.zkey, "C04: after take-backs the position `{id}` has a different key (fen {fen})"); }
            }
        }
    }
}

/// C05: every single-component perturbation of a position changes the from-scratch key
#[test]
fn c05_single_component_perturbations() {
    use crate::board::piece::Kind as K;
    let kinds = |c: Color| [K::Pawn(c), K::King(c), K::Queen(c), K::Rook(c), K::Bishop(c), K::Knight(c)];
    for fen in FENS.iter() {
        let b = Board::from_fen(fen);
        let k0 = ZKey::from(&b);
        // side to move
        let mut t = b.clone();
        t.current_turn = t.current_turn.opposite();
        assert!(ZKey::from(&t) != k0, "C05: side to move not in the key: {fen}");
        // en-passant file: every pair of different values (None, a..h) gives different keys
        let mut eps: Vec<(Option<u8>, ZKey)> = vec![];
        for ep in std::iter::once(None).chain((0..8u8).map(Some)) {
            let mut t = b.clone();
            t.en_passant_file = ep;
            eps.push((ep, ZKey::from(&t)));
        }
        for i in 0..eps.len() { for j in 0..i {
            assert!(eps[i].1 != eps[j].1, "C05: en-passant files {:?} and {:?} give the same key: {fen}", eps[i].0, eps[j].0);
        } }
        // each castling right
        for which in 0..4 {
            let mut t = b.clone();
            let last = t.history.last_mut().unwrap();
            let r = match which { 0 => &mut last.castling_rights.white_kingside, 1 => &mut last.castling_rights.white_queenside,
                                  2 => &mut last.castling_rights.black_kingside, _ => &mut last.castling_rights.black_queenside };
            *r = if *r == CastlingStatus::Available { CastlingStatus::Unavailable } else { CastlingStatus::Available };
            assert!(ZKey::from(&t) != k0, "C05: castling right {which} not in the key: {fen}");
        }
        // a piece on a square: remove each piece; put each kind on each empty square; replace kind
        for s in 0..64u8 {
            let sq = Square::from(s);
            match b.get_piece(sq) {
                Some(p) => {
                    let mut t = b.clone();
                    t.bitboards.remove_piece(sq, p);
                    assert!(ZKey::from(&t) != k0, "C05: removing {p} from {sq} keeps the key: {fen}");
                    for c in [Color::White, Color::Black] { for k in kinds(c) { if k != p {
                        let mut u = t.clone();
                        u.bitboards.add_piece(sq, k);
                        assert!(ZKey::from(&u) != k0, "C05: {p} and {k} on {sq} give the same key: {fen}");
                    } } }
                }
                None => {
                    for c in [Color::White, Color::Black] { for k in kinds(c) {
                        let mut t = b.clone();
                        t.bitboards.add_piece(sq, k);
                        assert!(ZKey::from(&t) != k0, "C05: adding {k} on {sq} keeps the key: {fen}");
                    } }
                }
            }
        }
    }
}

/// C05: the non-placement components together: all 16 sets of castling rights x 9 en-passant values x 2 sides to move of one
/// placement are 288 different positions and must get 288 different keys (covers components that cancel only in combination)
#[test]
fn c05_state_combinations_distinct() {
    let avail = |b: bool| if b { CastlingStatus::Available } else { CastlingStatus::Unavailable };
    for fen in FENS.iter() {
        let b = Board::from_fen(fen);
        let mut seen: std::collections::HashMap<ZKey, (u8, Option<u8>, bool)> = std::collections::HashMap::new();
        for rights in 0..16u8 { for ep in std::iter::once(None).chain((0..8u8).map(Some)) { for flip in [false, true] {
            let mut t = b.clone();
            if flip { t.current_turn = t.current_turn.opposite(); }
            t.en_passant_file = ep;
            let last = t.history.last_mut().unwrap();
            last.castling_rights.white_kingside = avail(rights & 1 != 0);
            last.castling_rights.white_queenside = avail(rights & 2 != 0);
            last.castling_rights.black_kingside = avail(rights & 4 != 0);
            last.castling_rights.black_queenside = avail(rights & 8 != 0);
            let k = ZKey::from(&t);
            if let Some(other) = seen.insert(k, (rights, ep, flip)) {
                panic!("C05: same key for (rights KQkq bits, ep file, other side to move) = {:?} and {:?} on the placement of {fen}", other, (rights, ep, flip));
            }
        } } }
    }
}

/// C05: along seeded playouts, positions that differ (placement, side to move, rights, en-passant file) never share a key
/// (a chance collision among ~10^5 64-bit keys has probability ~3e-10; the run is deterministic for a given seed)
#[test]
fn c05_explored_positions_distinct() {
    let ident = |b: &Board| -> String {
        let mut s = String::new();
        for i in 0..64u8 { match b.get_piece(Square::from(i)) { Some(p) => s.push_str(&format!("{p}")), None => s.push('.') } }
        let r = b.history.last().unwrap().castling_rights;
        format!("{s} {:?} {:?}{:?}{:?}{:?} {:?}", b.current_turn, r.white_kingside, r.white_queenside, r.black_kingside, r.black_queenside, b.en_passant_file)
    };
    let mut rng = Rng(seed());
    let mut seen: std::collections::HashMap<ZKey, String> = std::collections::HashMap::new();
    for fen in FENS.iter() {
        for _game in 0..games(6) {
            let mut b = Board::from_fen(fen);
            for _ply in 0..120 {
                let moves = b.get_legal_moves();
                if moves.is_empty() { break; }
                for m in &moves {
                    b.make_move(*m);
                    let (k, id) = (ZKey::from(&b), ident(&b));
                    match seen.get(&k) {
                        Some(other) => assert!(*other == id, "C05: two different positions share the key {k:?}:\n  {other}\n  {id}"),
                        None => { seen.insert(k, id); }
                    }
                    b.unmake_move();
                }
                let m = moves[rng.below(moves.len())];
                b.make_move(m);
                if b.get_halfmove_clock() >= 100 { break; }
            }
        }
    }
}

// =====================================================================================
// C01 / C03: an independent reference implementation of the rules (mailbox board, written from the FIDE rules, sharing
// no code with the engine) and a differential walk: legal move sets, check status and every bookkeeping component are
// compared after every move of seeded random playouts, plus a full-width walk to depth 2 from every start position.
// =====================================================================================
mod refrules {
    #[derive(Clone, Copy, PartialEq, Eq, Debug)]
    pub enum P { Pawn, Knight, Bishop, Rook, Queen, King }
    #[derive(Clone, PartialEq, Eq, Debug)]
    pub struct Pos {
        pub sq: [Option<(bool, P)>; 64],   // (is_white, piece); index = rank * 8 + file
        pub white: bool,
        pub rights: [bool; 4],             // K Q k q
        pub ep: Option<u8>,                // file of the pawn that just made a double step
        pub half: u32,
        pub full: u32,
    }
    #[derive(Clone, Copy, PartialEq, Eq, Debug)]
    pub struct Mv { pub from: usize, pub to: usize, pub promo: Option<P> }
    impl Mv {
        pub fn text(&self) -> String {
            let n = |i: usize| format!("{}{}", (b'a' + (i % 8) as u8) as char, i / 8 + 1);
            let p = match self.promo { Some(P::Queen) => "q", Some(P::Rook) => "r", Some(P::Bishop) => "b", Some(P::Knight) => "n", _ => "" };
            format!("{}{}{}", n(self.from), n(self.to), p)
        }
    }
    pub fn from_fen(fen: &str) -> Pos {
        let f: Vec<&str> = fen.split_whitespace().collect();
        let mut sq = [None; 64];
        let (mut r, mut c) = (7i32, 0i32);
        for ch in f[0].chars() {
            match ch {
                '/' => { r -= 1; c = 0; }
                '1'..='8' => c += ch as i32 - '0' as i32,
                _ => {
                    let p = match ch.to_ascii_lowercase() { 'p' => P::Pawn, 'n' => P::Knight, 'b' => P::Bishop, 'r' => P::Rook, 'q' => P::Queen, _ => P::King };
                    sq[(r * 8 + c) as usize] = Some((ch.is_ascii_uppercase(), p));
                    c += 1;
                }
            }
        }
        let cr = f.get(2).copied().unwrap_or("-");
        Pos { sq, white: f.get(1).copied().unwrap_or("w") == "w",
              rights: [cr.contains('K'), cr.contains('Q'), cr.contains('k'), cr.contains('q')],
              ep: f.get(3).and_then(|s| s.chars().next()).filter(|c| *c != '-').map(|c| c as u8 - b'a'),
              half: f.get(4).and_then(|s| s.parse().ok()).unwrap_or(0), full: f.get(5).and_then(|s| s.parse().ok()).unwrap_or(1) }
    }
    fn on(r: i32, c: i32) -> bool { (0..8).contains(&r) && (0..8).contains(&c) }
    /// is square s attacked by a piece of colour `by_white`?
    pub fn attacked(p: &Pos, s: usize, by_white: bool) -> bool {
        let (r, c) = ((s / 8) as i32, (s % 8) as i32);
        let at = |rr: i32, cc: i32| if on(rr, cc) { p.sq[(rr * 8 + cc) as usize] } else { None };
        let pr = if by_white { r - 1 } else { r + 1 };
        for dc in [-1, 1] { if at(pr, c + dc) == Some((by_white, P::Pawn)) { return true; } }
        for (dr, dc) in [(1, 2), (2, 1), (-1, 2), (-2, 1), (1, -2), (2, -1), (-1, -2), (-2, -1)] { if at(r + dr, c + dc) == Some((by_white, P::Knight)) { return true; } }
        for dr in -1..=1 { for dc in -1..=1 { if (dr, dc) != (0, 0) && at(r + dr, c + dc) == Some((by_white, P::King)) { return true; } } }
        for (dr, dc) in [(1, 0), (-1, 0), (0, 1), (0, -1), (1, 1), (1, -1), (-1, 1), (-1, -1)] {
            let diag = dr != 0 && dc != 0;
            let (mut rr, mut cc) = (r + dr, c + dc);
            while on(rr, cc) {
                if let Some((w, k)) = at(rr, cc) {
                    if w == by_white && (k == P::Queen || (diag && k == P::Bishop) || (!diag && k == P::Rook)) { return true; }
                    break;
                }
                rr += dr; cc += dc;
            }
        }
        false
    }
    pub fn in_check(p: &Pos, white: bool) -> bool {
        match (0..64).find(|&i| p.sq[i] == Some((white, P::King))) { Some(k) => attacked(p, k, !white), None => false }
    }
    fn pseudo(p: &Pos) -> Vec<Mv> {
        let mut out = vec![];
        let w = p.white;
        for from in 0..64 {
            let Some((c, k)) = p.sq[from] else { continue };
            if c != w { continue; }
            let (r, f) = ((from / 8) as i32, (from % 8) as i32);
            let mut step = |out: &mut Vec<Mv>, dr: i32, dc: i32, slide: bool| {
                let (mut rr, mut cc) = (r + dr, f + dc);
                while on(rr, cc) {
                    let t = (rr * 8 + cc) as usize;
                    match p.sq[t] { None => out.push(Mv { from, to: t, promo: None }),
                                    Some((oc, _)) => { if oc != w { out.push(Mv { from, to: t, promo: None }); } break; } }
                    if !slide { break; }
                    rr += dr; cc += dc;
                }
            };
            match k {
                P::Knight => for (dr, dc) in [(1, 2), (2, 1), (-1, 2), (-2, 1), (1, -2), (2, -1), (-1, -2), (-2, -1)] { step(&mut out, dr, dc, false); },
                P::King => {
                    for dr in -1..=1 { for dc in -1..=1 { if (dr, dc) != (0, 0) { step(&mut out, dr, dc, false); } } }
                    let home = if w { 4 } else { 60 };
                    if from == home && !attacked(p, home, !w) {
                        let (ks, qs) = if w { (p.rights[0], p.rights[1]) } else { (p.rights[2], p.rights[3]) };
                        if ks && p.sq[home + 1].is_none() && p.sq[home + 2].is_none() && p.sq[home + 3] == Some((w, P::Rook))
                            && !attacked(p, home + 1, !w) && !attacked(p, home + 2, !w) { out.push(Mv { from, to: home + 2, promo: None }); }
                        if qs && p.sq[home - 1].is_none() && p.sq[home - 2].is_none() && p.sq[home - 3].is_none() && p.sq[home - 4] == Some((w, P::Rook))
                            && !attacked(p, home - 1, !w) && !attacked(p, home - 2, !w) { out.push(Mv { from, to: home - 2, promo: None }); }
                    }
                }
                P::Bishop => for (dr, dc) in [(1, 1), (1, -1), (-1, 1), (-1, -1)] { step(&mut out, dr, dc, true); },
                P::Rook => for (dr, dc) in [(1, 0), (-1, 0), (0, 1), (0, -1)] { step(&mut out, dr, dc, true); },
                P::Queen => for (dr, dc) in [(1, 0), (-1, 0), (0, 1), (0, -1), (1, 1), (1, -1), (-1, 1), (-1, -1)] { step(&mut out, dr, dc, true); },
                P::Pawn => {
                    let dir = if w { 1 } else { -1 };
                    let (start, last) = if w { (1, 7) } else { (6, 0) };
                    let mut add = |out: &mut Vec<Mv>, to: usize| {
                        if (to / 8) as i32 == last { for pr in [P::Queen, P::Rook, P::Bishop, P::Knight] { out.push(Mv { from, to, promo: Some(pr) }); } }
                        else { out.push(Mv { from, to, promo: None }); }
                    };
                    if on(r + dir, f) && p.sq[((r + dir) * 8 + f) as usize].is_none() {
                        add(&mut out, ((r + dir) * 8 + f) as usize);
                        if r == start && p.sq[((r + 2 * dir) * 8 + f) as usize].is_none() { out.push(Mv { from, to: ((r + 2 * dir) * 8 + f) as usize, promo: None }); }
                    }
                    for dc in [-1, 1] {
                        if !on(r + dir, f + dc) { continue; }
                        let t = ((r + dir) * 8 + f + dc) as usize;
                        if let Some((oc, _)) = p.sq[t] { if oc != w { add(&mut out, t); } }
                        else if p.ep == Some((f + dc) as u8) && r == (if w { 4 } else { 3 }) && p.sq[(r * 8 + f + dc) as usize] == Some((!w, P::Pawn)) {
                            out.push(Mv { from, to: t, promo: None });
                        }
                    }
                }
            }
        }
        out
    }
    /// the successor position under the rules
    pub fn play(p: &Pos, m: Mv) -> Pos {
        let mut n = p.clone();
        let (w, k) = p.sq[m.from].unwrap();
        let capture = p.sq[m.to].is_some();
        let is_ep = k == P::Pawn && (m.from % 8 != m.to % 8) && !capture;
        n.sq[m.from] = None;
        n.sq[m.to] = Some((w, m.promo.unwrap_or(k)));
        if is_ep { n.sq[(m.from / 8) * 8 + m.to % 8] = None; }
        if k == P::King && (m.to as i32 - m.from as i32).abs() == 2 {
            let (rf, rt) = if m.to > m.from { (m.from + 3, m.from + 1) } else { (m.from - 4, m.from - 1) };
            n.sq[rt] = n.sq[rf]; n.sq[rf] = None;
        }
        // a right is lost when the king or that rook moves, or that rook is captured on its corner; never regained
        let lose = |n: &mut Pos, i: usize| n.rights[i] = false;
        if k == P::King { if w { lose(&mut n, 0); lose(&mut n, 1); } else { lose(&mut n, 2); lose(&mut n, 3); } }
        for s in [m.from, m.to] { match s { 7 => lose(&mut n, 0), 0 => lose(&mut n, 1), 63 => lose(&mut n, 2), 56 => lose(&mut n, 3), _ => {} } }
        n.ep = if k == P::Pawn && (m.to as i32 - m.from as i32).abs() == 16 { Some((m.from % 8) as u8) } else { None };
        n.half = if k == P::Pawn || capture || is_ep { 0 } else { p.half + 1 };
        if !w { n.full += 1; }
        n.white = !w;
        n
    }
    pub fn to_fen(p: &Pos) -> String {
        let mut out = String::new();
        for r in (0..8).rev() {
            let mut gap = 0;
            for c in 0..8 {
                match p.sq[r * 8 + c] {
                    None => gap += 1,
                    Some((w, k)) => {
                        if gap > 0 { out.push_str(&gap.to_string()); gap = 0; }
                        let ch = match k { P::Pawn => 'p', P::Knight => 'n', P::Bishop => 'b', P::Rook => 'r', P::Queen => 'q', P::King => 'k' };
                        out.push(if w { ch.to_ascii_uppercase() } else { ch });
                    }
                }
            }
            if gap > 0 { out.push_str(&gap.to_string()); }
            if r > 0 { out.push('/'); }
        }
        let mut cr = String::new();
        for (i, ch) in ['K', 'Q', 'k', 'q'].iter().enumerate() { if p.rights[i] { cr.push(*ch); } }
        if cr.is_empty() { cr.push('-'); }
        let ep = match p.ep { Some(f) => format!("{}{}", (b'a' + f) as char, if p.white { 6 } else { 3 }), None => "-".to_string() };
        format!("{} {} {} {} {} {}", out, if p.white { 'w' } else { 'b' }, cr, ep, p.half, p.full)
    }
    pub fn legal(p: &Pos) -> Vec<Mv> { pseudo(p).into_iter().filter(|m| !in_check(&play(p, *m), p.white)).collect() }
}

fn ref_kind(k: crate::board::piece::Kind) -> (bool, refrules::P) {
    use crate::board::piece::Kind as K;
    use refrules::P;
    match k { K::Pawn(c) => (c == Color::White, P::Pawn), K::Knight(c) => (c == Color::White, P::Knight), K::Bishop(c) => (c == Color::White, P::Bishop),
              K::Rook(c) => (c == Color::White, P::Rook), K::Queen(c) => (c == Color::White, P::Queen), K::King(c) => (c == Color::White, P::King) }
}
/// compare every bookkeeping component of the engine's board with the reference position
fn c03_compare(b: &Board, r: &refrules::Pos, ctx: &str) {
    for s in 0..64u8 {
        let e = b.get_piece(Square::from(s)).map(ref_kind);
        assert!(e == r.sq[s as usize], "C03: piece placement differs on {} (engine {:?}, rules {:?}): {ctx}", Square::from(s), e, r.sq[s as usize]);
    }
    assert!((b.current_turn == Color::White) == r.white, "C03: side to move differs: {ctx}");
    let cr = b.history.last().unwrap().castling_rights;
    let e = [cr.white_kingside == CastlingStatus::Available, cr.white_queenside == CastlingStatus::Available,
             cr.black_kingside == CastlingStatus::Available, cr.black_queenside == CastlingStatus::Available];
    assert!(e == r.rights, "C03: castling rights differ (engine KQkq {:?}, rules {:?}): {ctx}", e, r.rights);
    assert!(b.en_passant_file == r.ep, "C03: en-passant file differs (engine {:?}, rules {:?}): {ctx}", b.en_passant_file, r.ep);
    assert!(u32::from(b.get_halfmove_clock()) == r.half, "C03: half-move clock differs (engine {}, rules {}): {ctx}", b.get_halfmove_clock(), r.half);
    assert!(b.fullmove_counter as u64 == r.full as u64, "C03: full-move number differs (engine {}, rules {}): {ctx}", b.fullmove_counter, r.full);
}
fn c01_compare(b: &mut Board, r: &refrules::Pos, ctx: &str) -> Vec<Ply> {
    let moves = b.get_legal_moves();
    let mut e: Vec<String> = moves.iter().map(|m| m.to_notation()).collect();
    let mut x: Vec<String> = refrules::legal(r).iter().map(|m| m.text()).collect();
    let n = e.len();
    e.sort(); x.sort();
    let mut d = e.clone(); d.dedup();
    assert!(d.len() == n, "C01: the engine offers a move twice: {ctx}: {e:?}");
    assert!(e == x, "C01: legal moves differ: {ctx}\n  engine only: {:?}\n  rules only:  {:?}",
        e.iter().filter(|m| !x.contains(m)).collect::<Vec<_>>(), x.iter().filter(|m| !e.contains(m)).collect::<Vec<_>>());
    for (white, col) in [(true, Color::White), (false, Color::Black)] {
        assert!(b.is_in_check(col) == refrules::in_check(r, white), "C01: check status of {:?} differs: {ctx}", col);
    }
    moves
}
const FENS_C01: [&str; 12] = [
    "8/8/8/8/8/8/1k6/R3K3 b Q - 0 1", "r3k2r/8/8/8/8/8/6K1/8 w kq - 0 1", "4k3/8/8/2pP4/8/K7/2P4p/8 w - c6 0 2",
    "8/8/8/8/k2Pp2Q/8/8/3K4 b - d3 0 1", "8/8/3p4/KPp4r/1R3p1k/8/4P1P1/8 w - c6 0 2", "4k3/8/8/8/8/5q2/3N4/3K4 w - - 0 1",
    "4k3/8/8/6p1/7K/8/P7/8 w - - 0 1", "4k3/8/8/K6p/8/8/8/8 w - - 0 1", "r3k2r/p6p/8/B7/1pp1p3/3b4/P6P/R3K2R w KQkq - 0 1",
    "n1n5/PPPk4/8/8/8/8/4Kppp/5N1N b - - 0 1", "rnbqkbnr/pppppppp/8/8/4P3/8/PPPP1PPP/RNBQKBNR b KQkq e3 0 1", "r3k3/8/8/8/8/8/7r/3K4 b q - 2 2",
];
fn c01_c03_walk(check_c01: bool, check_c03: bool) {
    let mut rng = Rng(seed());
    let fens: Vec<&str> = FENS.iter().chain(FENS_C01.iter()).copied().collect();
    for fen in fens.iter() {
        // full width to depth 2 from the start position of the walk
        let mut b = Board::from_fen(fen);
        let r0 = refrules::from_fen(fen);
        let m0 = if check_c01 { c01_compare(&mut b, &r0, &format!("fen {fen}")) } else { b.get_legal_moves() };
        for m in &m0 {
            let rm = refrules::legal(&r0).into_iter().find(|x| x.text() == m.to_notation());
            let Some(rm) = rm else { continue };
            let r1 = refrules::play(&r0, rm);
            b.make_move(*m);
            let ctx = format!("fen {fen} moves [{m}]");
            if check_c03 { c03_compare(&b, &r1, &ctx); }
            if check_c01 { c01_compare(&mut b, &r1, &ctx); }
            b.unmake_move();
        }
        // seeded random playouts
        for _game in 0..games(8) {
            let mut b = Board::from_fen(fen);
            let mut r = refrules::from_fen(fen);
            let mut line: Vec<String> = vec![];
            let mut earlier: Vec<ZKey> = vec![];
            for _ply in 0..160 {
                let ctx = format!("fen {fen} moves {line:?}");
                if check_c03 {
                    c03_compare(&b, &r, &ctx);
                    // the record of earlier positions: exactly one key per ply played, in order
                    assert!(b.position_history.iter().copied().collect::<Vec<ZKey>>() == earlier,
                        "C03: the record of earlier positions is not the list of the positions of the game so far ({} entries, {} plies): {ctx}", b.position_history.len(), earlier.len());
                }
                let moves = if check_c01 { c01_compare(&mut b, &r, &ctx) } else { b.get_legal_moves() };
                if moves.is_empty() || r.half >= 100 { break; }
                let m = moves[rng.below(moves.len())];
                let Some(rm) = refrules::legal(&r).into_iter().find(|x| x.text() == m.to_notation()) else { break };
                earlier.push(b.zkey);
                b.make_move(m);
                r = refrules::play(&r, rm);
                line.push(m.to_string());
            }
        }
    }
}
#[test]
fn c01_legal_moves_match_the_rules() { c01_c03_walk(true, false) }
#[test]
fn c03_bookkeeping_matches_the_rules() { c01_c03_walk(false, true) }

/// C07: every position of seeded playouts, written out as a FEN by the reference implementation and loaded again by the
/// engine, is the position the string describes (all components), carries the key of that position, and equals -- for
/// everything the key covers -- the board that reached the same position by play
#[test]
fn c07_fen_loading_matches_the_string() {
    // the built-in start position is the position of the standard start FEN (it is what `position startpos` loads)
    {
        let start = "rnbqkbnr/pppppppp/8/8/8/8/PPPPPPPP/RNBQKBNR w KQkq - 0 1";
        let built = crate::board::boardbuilder::BoardBuilder::construct_starting_board().build();
        c03_compare(&built, &refrules::from_fen(start), "C07: the built-in start position");
        let loaded = Board::from_fen(start);
        assert!(built.zkey == loaded.zkey && built.zkey == ZKey::from(&built), "C07: the built-in start position and the start FEN have different keys");
        assert!(built.history.len() == 1 && built.position_history.is_empty(), "C07: the built-in start position must start with an empty game record");
    }
    let mut rng = Rng(seed());
    let fens: Vec<&str> = FENS.iter().chain(FENS_C01.iter()).copied().collect();
    for fen in fens.iter() {
        for _game in 0..games(4) {
            let mut b = Board::from_fen(fen);
            let mut r = refrules::from_fen(fen);
            for _ply in 0..80 {
                let text = refrules::to_fen(&r);
                let loaded = Board::from_fen(&text);
                c03_compare(&loaded, &r, &format!("C07: FEN {text}"));
                assert!(loaded.zkey == ZKey::from(&loaded), "C07: key of the loaded board is not the key of its position: FEN {text}");
                assert!(loaded.zkey == b.zkey, "C07: loaded position and the same position reached by play have different keys: FEN {text}");
                assert!(loaded.history.len() == 1 && loaded.position_history.is_empty(), "C07: a loaded position must start with an empty game record: FEN {text}");
                let moves = b.get_legal_moves();
                if moves.is_empty() || r.half >= 100 { break; }
                let m = moves[rng.below(moves.len())];
                let Some(rm) = refrules::legal(&r).into_iter().find(|x| x.text() == m.to_notation()) else { break };
                b.make_move(m);
                r = refrules::play(&r, rm);
            }
        }
    }
}
