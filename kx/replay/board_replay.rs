//! Native replay search on the real code (child module of `board`): used ONLY (a) to find a concrete failing input after
//! the verifier reported a failed obligation, (b) to look for a concrete refutation when the verifier could not decide.
//! A failure here is a counterexample on the real code; a pass proves nothing and never makes a check pass.
use super::*;
use crate::board::zkey::ZKey;

struct Rng(u64);
impl Rng {
    fn next(&mut self) -> u64 { self.0 ^= self.0 << 13; self.0 ^= self.0 >> 7; self.0 ^= self.0 << 17; self.0 }
    fn below(&mut self, n: usize) -> usize { (self.next() % n as u64) as usize }
}
fn seed() -> u64 { std::env::var("VERIF_SEED").ok().and_then(|s| s.parse::<u64>().ok()).unwrap_or(0) ^ 0x9E37_79B9_7F4A_7C15 }

const FENS: [&str; 14] = [
    "rnbqkbnr/pppppppp/8/8/8/8/PPPPPPPP/RNBQKBNR w KQkq - 0 1",
    "r3k2r/p1ppqpb1/bn2pnp1/3PN3/1p2P3/2N2Q1p/PPPBBPPP/R3K2R w KQkq - 0 1",
    "8/2p5/3p4/KP5r/1R3p1k/8/4P1P1/8 w - - 0 1",
    "r3k2r/Pppp1ppp/1b3nbN/nP6/BBP1P3/q4N2/Pp1P2PP/R2Q1RK1 w kq - 0 1",
    "rnbq1k1r/pp1Pbppp/2p5/8/2B5/8/PPP1NnPP/RNBQK2R w KQ - 1 8",
    "r4rk1/1pp1qppp/p1np1n2/2b1p1B1/2B1P1b1/P1NP1N2/1PP1QPPP/R4RK1 w - - 0 10",
    "r3k2r/8/8/8/8/8/8/R3K2R w KQkq - 0 1",
    "r3k2r/8/8/8/8/8/8/R3K2R b KQkq - 0 1",
    "4k3/P6P/8/8/8/8/p6p/4K3 w - - 0 1",
    "rnbqkb1r/ppp1pppp/5n2/3pP3/8/8/PPPP1PPP/RNBQKBNR w KQkq d6 0 3",
    "8/8/8/3k4/8/3K4/8/8 w - - 0 1",
    "4k3/8/8/2pP4/8/8/8/4K3 w - c6 0 2",
    "r1bqk2r/pppp1ppp/2n2n2/2b1p3/2B1P3/2N2N2/PPPP1PPP/R1BQK2R w KQkq - 6 5",
    "7k/8/8/8/1p6/pPp5/PRP5/KB6 b - - 0 1",
];

fn same_board(a: &Board, b: &Board) -> bool { a == b }

/// C02 / C04: random playouts; make+unmake restores the board exactly (derived PartialEq: every field), asking for the
/// legal moves changes nothing, and the incremental key equals the key computed from scratch after every make and unmake
fn playouts(check_c02: bool, check_c04: bool) {
    let mut rng = Rng(seed());
    for (fi, fen) in FENS.iter().enumerate() {
        for game in 0..6 {
            let mut b = Board::from_fen(fen);
            let mut line: Vec<String> = vec![];
            for _ply in 0..120 {
                let before = b.clone();
                let moves = b.get_legal_moves();
                if check_c02 { assert!(same_board(&b, &before), "C02: get_legal_moves changed the position: fen {fen} moves {line:?}"); }
                if moves.is_empty() { break; }
                // every legal move: make + unmake
                for m in &moves {
                    b.make_move(*m);
                    if check_c04 { assert!(b.zkey == ZKey::from(&b), "C04: key after make differs from scratch key: fen {fen} moves {line:?} then {m}"); }
                    b.unmake_move();
                    if check_c02 { assert!(same_board(&b, &before), "C02: make+unmake of {m} does not restore the position: fen {fen} moves {line:?}"); }
                    if check_c04 { assert!(b.zkey == ZKey::from(&b), "C04: key after unmake differs from scratch key: fen {fen} moves {line:?} then {m} (unmade)"); }
                }
                let m = moves[rng.below(moves.len())];
                b.make_move(m);
                line.push(m.to_string());
                if b.get_halfmove_clock() >= 100 { break; }
            }
            // unwind the whole game (nested sequence)
            let n = line.len();
            for _ in 0..n { b.unmake_move(); }
            if check_c02 {
                let fresh = Board::from_fen(fen);
                assert!(b.zkey == fresh.zkey && b.current_turn == fresh.current_turn && b.fullmove_counter == fresh.fullmove_counter,
                    "C02: unwinding a whole game does not return to the start: fen {fen} game {fi}/{game} moves {line:?}");
            }
        }
    }
}
#[test]
fn c02_make_unmake_playouts() { playouts(true, false) }
#[test]
fn c04_incremental_key_playouts() { playouts(false, true) }

/// C05: every single-component perturbation of a position changes the from-scratch key
#[test]
fn c05_single_component_perturbations() {
    use crate::board::piece::Kind as K;
    let kinds = |c: Color| [K::Pawn(c), K::King(c), K::Queen(c), K::Rook(c), K::Bishop(c), K::Knight(c)];
    for fen in FENS.iter() {
        let b = Board::from_fen(fen);
        let k0 = ZKey::from(&b);
        // side to move
        let mut t = b.clone();
        t.current_turn = t.current_turn.opposite();
        assert!(ZKey::from(&t) != k0, "C05: side to move not in the key: {fen}");
        // en-passant file: every pair of different values (None, a..h) gives different keys
        let mut eps: Vec<(Option<u8>, ZKey)> = vec![];
        for ep in std::iter::once(None).chain((0..8u8).map(Some)) {
            let mut t = b.clone();
            t.en_passant_file = ep;
            eps.push((ep, ZKey::from(&t)));
        }
        for i in 0..eps.len() { for j in 0..i {
            assert!(eps[i].1 != eps[j].1, "C05: en-passant files {:?} and {:?} give the same key: {fen}", eps[i].0, eps[j].0);
        } }
        // each castling right
        for which in 0..4 {
            let mut t = b.clone();
            let last = t.history.last_mut().unwrap();
            let r = match which { 0 => &mut last.castling_rights.white_kingside, 1 => &mut last.castling_rights.white_queenside,
                                  2 => &mut last.castling_rights.black_kingside, _ => &mut last.castling_rights.black_queenside };
            *r = if *r == CastlingStatus::Available { CastlingStatus::Unavailable } else { CastlingStatus::Available };
            assert!(ZKey::from(&t) != k0, "C05: castling right {which} not in the key: {fen}");
        }
        // a piece on a square: remove each piece; put each kind on each empty square; replace kind
        for s in 0..64u8 {
            let sq = Square::from(s);
            match b.get_piece(sq) {
                Some(p) => {
                    let mut t = b.clone();
                    t.bitboards.remove_piece(sq, p);
                    assert!(ZKey::from(&t) != k0, "C05: removing {p} from {sq} keeps the key: {fen}");
                    for c in [Color::White, Color::Black] { for k in kinds(c) { if k != p {
                        let mut u = t.clone();
                        u.bitboards.add_piece(sq, k);
                        assert!(ZKey::from(&u) != k0, "C05: {p} and {k} on {sq} give the same key: {fen}");
                    } } }
                }
                None => {
                    for c in [Color::White, Color::Black] { for k in kinds(c) {
                        let mut t = b.clone();
                        t.bitboards.add_piece(sq, k);
                        assert!(ZKey::from(&t) != k0, "C05: adding {k} on {sq} keeps the key: {fen}");
                    } }
                }
            }
        }
    }
}
