//! Native replay search for C08 (child module of `uci`)
use super::*;

fn cmd(u: &mut Uci, line: &str) -> Result<(), String> {
    let fields: Vec<&str> = line.split_whitespace().collect();
    let c = UCICommand::new(&fields)?;
    u.execute_command(c)
}

/// C08: a position command with an illegal move anywhere in its list is refused as a whole; an accepted one equals
/// playing the moves one by one; earlier commands do not matter
#[test]
fn c08_position_all_or_nothing() {
    let games: [(&str, &[&str]); 4] = [
        ("startpos", &["e2e4", "e7e5", "g1f3", "b8c6", "f1c4", "f8c5", "e1g1", "g8f6"]),
        ("fen r3k2r/p1ppqpb1/bn2pnp1/3PN3/1p2P3/2N2Q1p/PPPBBPPP/R3K2R w KQkq - 0 1", &["e1c1", "e8g8", "d5e6", "b4c3"]),
        ("fen 4k3/P6P/8/8/8/8/p6p/4K3 w - - 0 1", &["a7a8n", "h2h1n", "h7h8r"]),
        ("fen 4k3/8/8/2pP4/8/8/8/4K3 w - c6 0 2", &["d5c6", "e8d8"]),
    ];
    let junk = ["e2e5", "a1a1", "e7e8", "zzzz", "e1g1", "a7a8", "h2h1k", "g1f", "--", "e2", "e2e4e5", "0000"];
    // `position startpos` loads the position of the standard start FEN
    {
        let mut u = Uci::new();
        cmd(&mut u, "position startpos").unwrap();
        let want = Board::from_fen("rnbqkbnr/pppppppp/8/8/8/8/PPPPPPPP/RNBQKBNR w KQkq - 0 1");
        assert!(u.board == want, "C08: `position startpos` does not load the position of the standard start FEN");
    }
    for pass in 0..2 {
    for (start, moves) in games.iter() {
        // reference: play the moves one by one on a board
        let mut reference = if *start == "startpos" { BoardBuilder::construct_starting_board().build() } else { Board::from_fen(&start[4..]) };
        let mut u = Uci::new();
        cmd(&mut u, "position startpos moves d2d4 d7d5").unwrap();
        for k in 0..=moves.len() {
            if k > 0 {
                let p = reference.find_move(moves[k - 1]).expect("demo game move is legal");
                reference.make_move(p);
            }
            let line = format!("position {} moves {}", start, moves[..k].join(" "));
            let line = if k == 0 { format!("position {}", start) } else { line };
            // second pass: a new game is announced before every position command; what was loaded before must not matter
            if pass == 1 { cmd(&mut u, "ucinewgame").unwrap(); }
            let r = cmd(&mut u, &line);
            assert!(r.is_ok(), "C08: legal game refused: {line}: {r:?}");
            assert!(u.board == reference, "C08: after `{line}` the position differs from playing the moves one by one");
            // now corrupt the list at every place: the command must be refused and the position stay
            let before = u.board.clone();
            for j in 0..=k {
                for bad in junk.iter() {
                    let mut ms: Vec<&str> = moves[..k].to_vec();
                    ms.insert(j, bad);
                    // only use corruptions that really are illegal at that point
                    let mut probe = if *start == "startpos" { BoardBuilder::construct_starting_board().build() } else { Board::from_fen(&start[4..]) };
                    let mut legal_prefix = true;
                    for m in &ms[..j] { let p = probe.find_move(m).unwrap(); probe.make_move(p); }
                    // a legal move is written with 4 or 5 characters; anything else is illegal whatever the position
                    if (bad.len() == 4 || bad.len() == 5) && probe.find_move(bad).is_ok() { legal_prefix = false; }
                    if !legal_prefix { continue; }
                    let line2 = format!("position {} moves {}", start, ms.join(" "));
                    let r2 = cmd(&mut u, &line2);
                    assert!(r2.is_err(), "C08: `{line2}` contains the illegal move {bad} but was accepted");
                    assert!(u.board == before, "C08: the refused command `{line2}` changed the current position");
                }
            }
        }
    }
    }
}
