//! Native replay search for C08 (child module of `uci`)
use super::*;

fn cmd(u: &mut Uci, line: &str) -> Result<(), String> {
    let fields: Vec<&str> = line.split_whitespace().collect();
    let c = UCICommand::new(&fields)?;
    u.execute_command(c)
}

/// the legal move a coordinate string names, found WITHOUT the engine's own notation matching (`find_move` / `to_notation`):
/// the string is read here (files a-h, ranks 1-8, promotion letter) and compared with the fields of the generated moves
fn pick(b: &mut Board, s: &str) -> Option<crate::board::Ply> {
    use crate::board::piece::Kind as K;
    let c: Vec<char> = s.chars().collect();
    if c.len() != 4 && c.len() != 5 { return None; }
    let sq = |f: char, r: char| -> Option<(u8, u8)> {
        if ('a'..='h').contains(&f) && ('1'..='8').contains(&r) { Some((r as u8 - b'1', f as u8 - b'a')) } else { None }
    };
    let (fr, ff) = sq(c[0], c[1])?;
    let (tr, tf) = sq(c[2], c[3])?;
    let promo = if c.len() == 5 { Some(c[4]) } else { None };
    b.get_legal_moves().into_iter().find(|m| {
        let pk = match m.promoted_to { None => None, Some(K::Queen(_)) => Some('q'), Some(K::Rook(_)) => Some('r'),
                                       Some(K::Bishop(_)) => Some('b'), Some(K::Knight(_)) => Some('n'), Some(_) => Some('?') };
        m.start.rank == fr && m.start.file == ff && m.dest.rank == tr && m.dest.file == tf && pk == promo
    })
}

/// C08: a position command with an illegal move anywhere in its list is refused as a whole; an accepted one equals
/// playing the moves one by one; earlier commands do not matter
#[test]
fn c08_position_all_or_nothing() {
    let games: [(&str, &[&str]); 7] = [
        // under-promotions whose piece matters afterwards: the knight gives check / the bishop moves diagonally / the rook moves straight
        ("fen 4k3/P6P/8/8/8/8/p6p/4K3 w - - 0 1", &["a7a8b", "a2a1b", "a8d5", "a1d4", "h7h8n", "h2h1n", "h8g6", "h1g3"]),
        ("fen 8/2P2k2/8/8/8/8/2p2K2/8 w - - 0 1", &["c7c8n", "c2c1r", "c8d6", "f7e6", "d6e4", "c1c4"]),
        ("fen r3k3/1P6/8/8/8/8/1p6/R3K3 w Qq - 0 1", &["b7a8b", "b2a1n", "a8e4", "a1b3"]),
        ("startpos", &["e2e4", "e7e5", "g1f3", "b8c6", "f1c4", "f8c5", "e1g1", "g8f6"]),
        ("fen r3k2r/p1ppqpb1/bn2pnp1/3PN3/1p2P3/2N2Q1p/PPPBBPPP/R3K2R w KQkq - 0 1", &["e1c1", "e8g8", "d5e6", "b4c3"]),
        ("fen 4k3/P6P/8/8/8/8/p6p/4K3 w - - 0 1", &["a7a8n", "h2h1n", "h7h8r"]),
        ("fen 4k3/8/8/2pP4/8/8/8/4K3 w - c6 0 2", &["d5c6", "e8d8"]),
    ];
    let junk = ["e2e5", "a1a1", "e7e8", "zzzz", "e1g1", "a7a8", "h2h1k", "g1f", "--", "e2", "e2e4e5", "0000"];
    // `position startpos` loads the position of the standard start FEN
    {
        let mut u = Uci::new();
        cmd(&mut u, "position startpos").unwrap();
        let want = Board::from_fen("rnbqkbnr/pppppppp/8/8/8/8/PPPPPPPP/RNBQKBNR w KQkq - 0 1");
        assert!(u.board == want, "C08: `position startpos` does not load the position of the standard start FEN");
    }
    for pass in 0..2 {
    for (start, moves) in games.iter() {
        // reference: play the moves one by one on a board
        let mut reference = if *start == "startpos" { BoardBuilder::construct_starting_board().build() } else { Board::from_fen(&start[4..]) };
        let mut u = Uci::new();
        cmd(&mut u, "position startpos moves d2d4 d7d5").unwrap();
        for k in 0..=moves.len() {
            if k > 0 {
                let p = pick(&mut reference, moves[k - 1]).expect("demo game move is legal");
                reference.make_move(p);
            }
            let line = format!("position {} moves {}", start, moves[..k].join(" "));
            let line = if k == 0 { format!("position {}", start) } else { line };
            // second pass: a new game is announced before every position command; what was loaded before must not matter
            if pass == 1 { cmd(&mut u, "ucinewgame").unwrap(); }
            let r = cmd(&mut u, &line);
            assert!(r.is_ok(), "C08: legal game refused: {line}: {r:?}");
            assert!(u.board == reference, "C08: after `{line}` the position differs from playing the moves one by one");
            // now corrupt the list at every place: the command must be refused and the position stay
            let before = u.board.clone();
            for j in 0..=k {
                for bad in junk.iter() {
                    let mut ms: Vec<&str> = moves[..k].to_vec();
                    ms.insert(j, bad);
                    // only use corruptions that really are illegal at that point
                    let mut probe = if *start == "startpos" { BoardBuilder::construct_starting_board().build() } else { Board::from_fen(&start[4..]) };
                    let mut legal_prefix = true;
                    for m in &ms[..j] { let p = pick(&mut probe, m).unwrap(); probe.make_move(p); }
                    // a legal move is written with 4 or 5 characters; anything else is illegal whatever the position
                    if pick(&mut probe, bad).is_some() { legal_prefix = false; }
                    if !legal_prefix { continue; }
                    let line2 = format!("position {} moves {}", start, ms.join(" "));
                    let r2 = cmd(&mut u, &line2);
                    assert!(r2.is_err(), "C08: `{line2}` contains the illegal move {bad} but was accepted");
                    assert!(u.board == before, "C08: the refused command `{line2}` changed the current position");
                }
            }
        }
    }
    }
}
