//! Kani ledger rows for the four ZKey toggles (child module of board::zkey: sees ZKey.0, TABLE, ZTable fields).
//! ZTable::init runs ChaCha8 (inline asm, not executable under CBMC): it is stubbed by a fully symbolic table, so the
//! rows hold for EVERY table.
use super::*;
use crate::board::piece::{Color, Kind};
use crate::board::ply::castling::CastlingKind;
use crate::board::square::Square;

fn symbolic_table() -> ZTable {
    ZTable { pieces: kani::any(), castling: kani::any(), en_passant: kani::any(), white_turn: kani::any() }
}
fn any_sq() -> Square {
    let r: u8 = kani::any();
    let f: u8 = kani::any();
    kani::assume(r < 8 && f < 8);
    Square { rank: r, file: f }
}
fn any_color() -> Color { if kani::any() { Color::White } else { Color::Black } }
fn any_kind() -> Kind {
    let c = any_color();
    let k: u8 = kani::any();
    kani::assume(k < 6);
    match k { 0 => Kind::Pawn(c), 1 => Kind::King(c), 2 => Kind::Queen(c), 3 => Kind::Rook(c), 4 => Kind::Bishop(c), _ => Kind::Knight(c) }
}
fn kind_idx(k: Kind) -> usize { match k { Kind::Pawn(_) => 0, Kind::King(_) => 1, Kind::Queen(_) => 2, Kind::Rook(_) => 3, Kind::Bishop(_) => 4, Kind::Knight(_) => 5 } }
fn color_idx(c: Color) -> usize { match c { Color::White => 0, Color::Black => 1 } }

/// LEDGER zk_toggle_piece: self.0 ^= pieces[colour][kind][square], indices in range, slot determined by (kind, square)
#[kani::proof]
#[kani::stub(ZTable::init, symbolic_table)]
fn zk_toggle_piece() {
    let mut k = ZKey(kani::any());
    let old = k.0;
    let p = any_kind();
    let s = any_sq();
    k.add_or_remove_piece(p, s);
    let t = TABLE.get().unwrap();
    assert!(k.0 == old ^ t.pieces[color_idx(p.get_color())][kind_idx(p)][(s.rank * 8 + s.file) as usize]);
    kani::cover!(true, "harness end reachable");
}

/// the slot index is injective in (colour, kind, square): two different components never share a table word (C05)
#[kani::proof]
fn zk_slot_injective() {
    let p1 = any_kind(); let s1 = any_sq();
    let p2 = any_kind(); let s2 = any_sq();
    let i1 = (usize::from(p1.get_color()), usize::from(p1), usize::from(s1));
    let i2 = (usize::from(p2.get_color()), usize::from(p2), usize::from(s2));
    assert!(i1.0 < 2 && i1.1 < 6 && i1.2 < 64);
    assert!((i1 == i2) == (p1 == p2 && s1 == s2));
    kani::cover!(true, "harness end reachable");
}

/// LEDGER zk_toggle_right
#[kani::proof]
#[kani::stub(ZTable::init, symbolic_table)]
fn zk_toggle_right() {
    let mut k = ZKey(kani::any());
    let old = k.0;
    let c: u8 = kani::any();
    kani::assume(c < 4);
    let (ck, idx) = match c { 0 => (CastlingKind::WhiteKingside, 0usize), 1 => (CastlingKind::WhiteQueenside, 1), 2 => (CastlingKind::BlackKingside, 2), _ => (CastlingKind::BlackQueenside, 3) };
    k.change_castling_rights(ck);
    assert!(k.0 == old ^ TABLE.get().unwrap().castling[idx]);
    kani::cover!(true, "harness end reachable");
}

/// LEDGER zk_toggle_ep
#[kani::proof]
#[kani::stub(ZTable::init, symbolic_table)]
fn zk_toggle_ep() {
    let mut k = ZKey(kani::any());
    let old = k.0;
    let f: u8 = kani::any();
    kani::assume(f < 8);
    k.change_en_passant(f);
    assert!(k.0 == old ^ TABLE.get().unwrap().en_passant[f as usize]);
    kani::cover!(true, "harness end reachable");
}

/// LEDGER zk_toggle_turn
#[kani::proof]
#[kani::stub(ZTable::init, symbolic_table)]
fn zk_toggle_turn() {
    let mut k = ZKey(kani::any());
    let old = k.0;
    k.change_turn();
    assert!(k.0 == old ^ TABLE.get().unwrap().white_turn);
    assert!(ZKey::new().0 == 0);
    kani::cover!(true, "harness end reachable");
}
