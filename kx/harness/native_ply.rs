//! natively evaluated ground fact about the real Ply::to_notation (C08, C01): over every (start, dest, promotion) the
//! text is the coordinate notation of exactly that triple -- hence deterministic in the triple, independent of every
//! other field, and injective. Complete enumeration: 64 x 64 x 9 promotion values x 2 variants of the other fields.
use super::*;
use crate::board::piece::{Color, Kind};
use crate::board::square::Square;

#[test]
fn to_notation_exact() {
    let promos: [(Option<Kind>, &str); 9] = [
        (None, ""), (Some(Kind::Queen(Color::White)), "q"), (Some(Kind::Rook(Color::White)), "r"), (Some(Kind::Bishop(Color::White)), "b"),
        (Some(Kind::Knight(Color::White)), "n"), (Some(Kind::Queen(Color::Black)), "q"), (Some(Kind::Rook(Color::Black)), "r"),
        (Some(Kind::Bishop(Color::Black)), "b"), (Some(Kind::Knight(Color::Black)), "n")];
    let name = |i: u8| format!("{}{}", (b'a' + i % 8) as char, i / 8 + 1);
    let mut n = 0u32;
    for s in 0..64u8 { for d in 0..64u8 { for (pr, suffix) in promos.iter() {
        let want = format!("{}{}{}", name(s), name(d), suffix);
        let mut p = Ply::new(Square::from(s), Square::from(d), Kind::King(Color::White));
        p.promoted_to = *pr;
        assert!(p.to_notation() == want, "to_notation of {s}->{d} promo {pr:?} is {:?}, expected {want:?}", p.to_notation());
        // no other field takes part
        p.piece = Kind::Pawn(Color::Black); p.captured_piece = Some(Kind::Queen(Color::White)); p.is_castles = true; p.en_passant = true;
        p.is_double_pawn_push = true; p.halfmove_clock = 77;
        assert!(p.to_notation() == want, "to_notation depends on a field other than start, dest, promoted_to ({s}->{d})");
        assert!(p.to_string() == want, "Display of a move differs from its notation ({s}->{d})");
        n += 1;
    } } }
    assert!(n == 64 * 64 * 9);
}
