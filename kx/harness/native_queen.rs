//! natively evaluated: the queen is rook | bishop, leapers read their tables (child module of board::piece::queen)
use super::*;
//@INCLUDE attack_ref.inc
#[test]
fn queen_and_leaper_lookup_exact() {
    let mut x = 0x2545_F491_4F6C_DD1Du64;
    for s in 0..64u8 {
        let sq = Square::from(s);
        for _ in 0..2000 {
            x ^= x << 13; x ^= x >> 7; x ^= x << 17;
            let occ = x;
            let q = Queen::get_attacks(sq, Bitboard::new(occ));
            assert!(*q == rook_ref(s, occ) | bishop_ref(s, occ), "queen square {s} occupancy {occ:#x}");
        }
        use crate::board::piece::{king::King, knight::Knight, pawn::Pawn, Precomputed, PrecomputedColor};
        assert!(*<Knight as Precomputed>::get_attacks(sq) == leaper_ref(s, &KNIGHT_DELTAS));
        assert!(*<King as Precomputed>::get_attacks(sq) == leaper_ref(s, &KING_DELTAS));
        // (ledger row of vx/prelude/nodup.rs axiom_king_home_reach) a king on e1 / e8 does not reach g1, c1 / g8, c8 in one step
        if s == 4 || s == 60 { assert!(*<King as Precomputed>::get_attacks(sq) & ((1u64 << (s + 2)) | (1u64 << (s - 2))) == 0); }
        assert!(*<Pawn as PrecomputedColor>::get_attacks(sq, Color::White) == leaper_ref(s, &WHITE_PAWN_DELTAS));
        assert!(*<Pawn as PrecomputedColor>::get_attacks(sq, Color::Black) == leaper_ref(s, &BLACK_PAWN_DELTAS));
    }
}
