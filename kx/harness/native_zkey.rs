//! natively evaluated ground fact about the real Zobrist table (C05): the 781 words produced by ZTable::init from the
//! fixed seed are pairwise distinct and non-zero -- child module of board::zkey
use super::*;

#[test]
fn table_distinct_nonzero() {
    let t = TABLE.get_or_init(ZTable::init);
    let mut words: Vec<u64> = Vec::new();
    for c in 0..2 { for k in 0..6 { for s in 0..64 { words.push(t.pieces[c][k][s]); } } }
    words.extend_from_slice(&t.castling);
    words.extend_from_slice(&t.en_passant);
    words.push(t.white_turn);
    assert_eq!(words.len(), 781);
    assert!(words.iter().all(|w| *w != 0), "a table word is zero");
    let mut sorted = words.clone();
    sorted.sort_unstable();
    sorted.dedup();
    assert_eq!(sorted.len(), 781, "two table words coincide");
    // a second run of init gives the same table (fixed seed; C16 clause d) -- init asserts the cell is empty, so compare
    // against a freshly seeded generator instead
    let mut rng = ChaCha8Rng::seed_from_u64(SEED);
    assert_eq!(rng.next_u64(), t.pieces[0][0][0]);
}

/// [C05] R13 models the static as "one run of ZTable::init": every expression that can initialise it anywhere in the
/// defining file (collected mechanically at splice time) must produce that same table
#[test]
fn table_initialisers_agree() {
    //@STATIC-INITS
    assert!(!inits.is_empty(), "no initialisation site of TABLE found");
    // ZTable::init asserts that the cell is still empty: run the candidates before anything touches the cell
    let tables: Vec<(&str, ZTable)> = inits.iter().map(|(n, f)| (*n, f())).collect();
    let mut rng = ChaCha8Rng::seed_from_u64(SEED);
    let first = rng.next_u64();
    for (n, t) in tables.iter() {
        assert!(t.pieces[0][0][0] == first, "TABLE may be initialised by `{n}`, which is not the seeded table of ZTable::init (first word {:#x})", t.pieces[0][0][0]);
        assert!(t.pieces == tables[0].1.pieces && t.castling == tables[0].1.castling && t.en_passant == tables[0].1.en_passant
            && t.white_turn == tables[0].1.white_turn, "TABLE may be initialised by `{n}`, whose table differs from `{}`", tables[0].0);
    }
}
