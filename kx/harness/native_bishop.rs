//! natively evaluated ground facts for the bishop's magic table (child module of board::piece::bishop)
use super::*;
//@INCLUDE attack_ref.inc
type PIECE = Bishop;
const EXPECTED_CASES: u64 = 5_248;
fn piece_ref(s: u8, occ: u64) -> u64 { bishop_ref(s, occ) }
//@INCLUDE native_slider.inc
#[test]
fn bishop_table_lookup_exact() { table_lookup_exact_inner() }
