//! Kani ledger rows for Bitboard (child module of board::bitboard: sees the private field)
use super::*;

/// LEDGER bb_count_ones: the unsafe target_feature wrapper is the intrinsic; popcount <= 64; invariant under vertical flip
#[kani::proof]
fn bb_count_ones() {
    let x: u64 = kani::any();
    let b = Bitboard::new(x);
    assert!(b.count_ones() == x.count_ones());
    assert!(x.count_ones() <= 64);
    assert!(x.swap_bytes().count_ones() == x.count_ones());
    kani::cover!(true, "harness end reachable");
}

/// LEDGER bb_ops: the macro-generated operators are the u64 operators (R7)
#[kani::proof]
fn bb_ops() {
    let x: u64 = kani::any();
    let y: u64 = kani::any();
    let a = Bitboard::new(x);
    let b = Bitboard::new(y);
    assert!((a & b).0 == x & y);
    assert!((a | b).0 == x | y);
    assert!((a ^ b).0 == x ^ y);
    assert!((a & y).0 == x & y);
    assert!((a | y).0 == x | y);
    assert!((!a).0 == !x);
    assert!(a.is_empty() == (x == 0));
    let mut c = a;
    c |= b;
    assert!(c.0 == x | y);
    let mut d = a;
    d &= b;
    assert!(d.0 == x & y);
    let mut e = a;
    e |= y;
    assert!(e.0 == x | y);
    let mut f = a;
    f &= y;
    assert!(f.0 == x & y);
    let s: u32 = kani::any();
    assert!((a << s).0 == if s < 64 { x << s } else { 0 });
    let t: usize = kani::any();
    kani::assume(t < 64);
    assert!((a >> t).0 == x >> t);
    assert!((a * b).0 == x.wrapping_mul(y));
    assert!(*a == x);
    assert!(u64::from(a) == x);
    kani::cover!(true, "harness end reachable");
}

/// LEDGER bb_scan: the loop-free step of every "iterate the set bits" loop (Vec<Square>::from(Bitboard),
/// get_blockers_from_index): t = trailing_zeros(m) is the lowest set bit and m & (m-1) clears exactly it
#[kani::proof]
fn bb_scan_step() {
    let m: u64 = kani::any();
    kani::assume(m != 0);
    let t = m.trailing_zeros();
    assert!(t < 64);
    assert!((m >> t) & 1 == 1);
    assert!(m & ((1u64 << t) - 1) == 0);
    assert!(m & (m - 1) == m & !(1u64 << t));
    let mut b = Bitboard::new(m);
    assert!(b.bitscan_forward() == t);
    let i = b.drop_forward();
    assert!(i == t && b.0 == m & (m - 1));
    assert!(Bitboard::new(m).bitscan_reverse() == 63 - m.leading_zeros());
    let h = 63 - m.leading_zeros();
    assert!((m >> h) & 1 == 1 && (h == 63 || m >> (h + 1) == 0));
    kani::cover!(true, "harness end reachable");
}
