//! natively evaluated ground fact about the real MVV-LVA table of the move orderer (C09: score_move cannot overflow or index
//! out of bounds): the table the accessor hands out (`MVV_LVA_TABLE.get_or_init(init_mvv_lva)`) is 6 x 5 and every entry is
//! below 30. Complete enumeration of the 30 entries of the real table.
use super::*;

#[test]
fn mvv_lva_bounded() {
    let t = MVV_LVA_TABLE.get_or_init(init_mvv_lva);
    assert!(t.len() == 6 && ATTACKERS_VALUE_DESCENDING.len() == 6 && VICTIMS_VALUE_ASCENDING.len() == 5);
    let mut n = 0;
    for row in t.iter() {
        assert!(row.len() == 5);
        for v in row.iter() { assert!(*v < 30, "MVV-LVA entry {v} is not below 30"); n += 1; }
    }
    assert!(n == 30);
    // the same table whoever initialises it
    let fresh = init_mvv_lva();
    assert!(*t == fresh);
}
