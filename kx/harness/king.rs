//! Kani rows for the king (child module of board::piece::king)
use super::*;
//@INCLUDE attack_ref.inc
/// LEDGER king_attacks [C06]
#[kani::proof]
#[kani::unwind(66)]
fn king_exact() {
    let t = <King as Precomputed>::init_attacks();
    let s: u8 = kani::any();
    kani::assume(s < 64);
    assert!(*t[s as usize] == leaper_ref(s, &KING_DELTAS));
    kani::cover!(true, "harness end reachable");
}
