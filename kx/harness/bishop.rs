//! Kani rows for the bishop (child module of board::piece::bishop)
use super::*;
use crate::board::bitboard::Bitboard;
//@INCLUDE attack_ref.inc
type PIECE = Bishop;
const DIRS: [usize; 4] = [1, 3, 5, 7];
fn piece_ref(s: u8, occ: u64) -> u64 { bishop_ref(s, occ) }
//@INCLUDE slider.inc
