//! Kani ledger rows for PieceBitboards (assumed by vx/prelude/pb_view.rs, zkey_model.rs, square_lits.rs). Child module of board::piece_bitboards.
use super::*;
use crate::board::bitboard::Bitboard;
use crate::board::piece::{Color, Kind};
use crate::board::square::Square;

//@ORACLE

fn any_pb() -> PieceBitboards {
    PieceBitboards {
        white_pawns: Bitboard::new(kani::any()), white_king: Bitboard::new(kani::any()), white_queens: Bitboard::new(kani::any()),
        white_rooks: Bitboard::new(kani::any()), white_knights: Bitboard::new(kani::any()), white_bishops: Bitboard::new(kani::any()),
        black_pawns: Bitboard::new(kani::any()), black_king: Bitboard::new(kani::any()), black_queens: Bitboard::new(kani::any()),
        black_rooks: Bitboard::new(kani::any()), black_knights: Bitboard::new(kani::any()), black_bishops: Bitboard::new(kani::any()),
        white_pieces: Bitboard::new(kani::any()), black_pieces: Bitboard::new(kani::any()), all_pieces: Bitboard::new(kani::any()),
    }
}
fn any_sq() -> Square {
    let r: u8 = kani::any();
    let f: u8 = kani::any();
    kani::assume(r < 8 && f < 8);
    Square { rank: r, file: f }
}
fn any_color() -> Color { if kani::any() { Color::White } else { Color::Black } }
fn any_kind() -> Kind {
    let c = any_color();
    let k: u8 = kani::any();
    kani::assume(k < 6);
    match k { 0 => Kind::Pawn(c), 1 => Kind::King(c), 2 => Kind::Queen(c), 3 => Kind::Rook(c), 4 => Kind::Bishop(c), _ => Kind::Knight(c) }
}

/// LEDGER pb_add_piece
#[kani::proof]
fn pb_add_piece() {
    let mut pb = any_pb();
    kani::assume(pb_wf(&pb));
    let sq = any_sq();
    let k = any_kind();
    kani::assume(at(&pb, sq).is_none());
    kani::cover!(true, "precondition reachable");
    let old = pb.clone();
    pb.add_piece(sq, k);
    assert!(pb_wf(&pb));
    let s2 = any_sq();
    assert!(at(&pb, s2) == if s2 == sq { Some(k) } else { at(&old, s2) });
    kani::cover!(true, "harness end reachable");
}

/// LEDGER pb_remove_piece
#[kani::proof]
fn pb_remove_piece() {
    let mut pb = any_pb();
    kani::assume(pb_wf(&pb));
    let sq = any_sq();
    let k = any_kind();
    kani::assume(at(&pb, sq) == Some(k));
    kani::cover!(true, "precondition reachable");
    let old = pb.clone();
    pb.remove_piece(sq, k);
    assert!(pb_wf(&pb));
    let s2 = any_sq();
    assert!(at(&pb, s2) == if s2 == sq { None } else { at(&old, s2) });
    kani::cover!(true, "harness end reachable");
}

/// LEDGER pb_get_piece_kind
#[kani::proof]
fn pb_get_piece_kind() {
    let pb = any_pb();
    kani::assume(pb_wf(&pb));
    let sq = any_sq();
    kani::cover!(at(&pb, sq).is_some(), "occupied square reachable");
    assert!(pb.get_piece_kind(sq) == at(&pb, sq));
    kani::cover!(true, "harness end reachable");
}

/// LEDGER pb_default / pb_builder: the start position and the builder establish pb_wf when the twelve boards are disjoint
#[kani::proof]
fn pb_default_wf() {
    let pb = PieceBitboards::default();
    assert!(pb_wf(&pb));
    // the start position satisfies the generators' invariants: kings and rooks at home, no pawn on a last rank
    assert!(at(&pb, Square { rank: 0, file: 4 }) == Some(Kind::King(Color::White)) && at(&pb, Square { rank: 7, file: 4 }) == Some(Kind::King(Color::Black)));
    assert!(at(&pb, Square { rank: 0, file: 0 }) == Some(Kind::Rook(Color::White)) && at(&pb, Square { rank: 0, file: 7 }) == Some(Kind::Rook(Color::White)));
    assert!(at(&pb, Square { rank: 7, file: 0 }) == Some(Kind::Rook(Color::Black)) && at(&pb, Square { rank: 7, file: 7 }) == Some(Kind::Rook(Color::Black)));
    let f: u8 = kani::any();
    kani::assume(f < 8);
    assert!(at(&pb, Square { rank: 0, file: f }) != Some(Kind::Pawn(Color::Black)) && at(&pb, Square { rank: 7, file: f }) != Some(Kind::Pawn(Color::White)));
    kani::cover!(true, "harness end reachable");
}

/// LEDGER popcount rows used by the EVAL unit (C17)
#[kani::proof]
fn pb_get_piece_count() {
    let pb = any_pb();
    let k = any_kind();
    let expect = match k {
        Kind::Pawn(Color::White) => (*pb.white_pawns).count_ones(), Kind::Knight(Color::White) => (*pb.white_knights).count_ones(),
        Kind::Bishop(Color::White) => (*pb.white_bishops).count_ones(), Kind::Rook(Color::White) => (*pb.white_rooks).count_ones(),
        Kind::Queen(Color::White) => (*pb.white_queens).count_ones(), Kind::King(Color::White) => (*pb.white_king).count_ones(),
        Kind::Pawn(Color::Black) => (*pb.black_pawns).count_ones(), Kind::Knight(Color::Black) => (*pb.black_knights).count_ones(),
        Kind::Bishop(Color::Black) => (*pb.black_bishops).count_ones(), Kind::Rook(Color::Black) => (*pb.black_rooks).count_ones(),
        Kind::Queen(Color::Black) => (*pb.black_queens).count_ones(), Kind::King(Color::Black) => (*pb.black_king).count_ones(),
    };
    assert!(pb.get_piece_count(k) == expect);
    kani::cover!(true, "harness end reachable");
}
