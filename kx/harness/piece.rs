//! Kani rows for the Magic trait's provided method (child module of board::piece)
use super::*;

/// LEDGER blockers_from_index [C06]: the idx-th subset of the mask: inside the mask, and different indices below
/// 2^popcount(mask) give different subsets (an injection between two sets of 2^n elements, hence every subset is hit)
#[kani::proof]
#[kani::unwind(14)]
fn blockers_from_index() {
    let mask: u64 = kani::any();
    kani::assume(mask.count_ones() <= 12);
    let n = mask.count_ones();
    let i1: u16 = kani::any();
    let i2: u16 = kani::any();
    kani::assume((i1 as u32) < (1u32 << n) && (i2 as u32) < (1u32 << n));
    let b1 = <Rook as Magic>::get_blockers_from_index(i1, Bitboard::new(mask));
    let b2 = <Rook as Magic>::get_blockers_from_index(i2, Bitboard::new(mask));
    assert!(*b1 & !mask == 0);
    assert!((i1 == i2) == (*b1 == *b2));
    kani::cover!(true, "harness end reachable");
}
