//! Kani rows for init_rays (child module of board::square::rays)
use super::*;
//@INCLUDE attack_ref.inc

/// LEDGER rays_exact [C06]: every entry of the ray table is the coordinate walk to the board edge
#[kani::proof]
#[kani::unwind(66)]
fn rays_exact() {
    let rays = init_rays();
    let s: u8 = kani::any();
    let d: usize = kani::any();
    kani::assume(s < 64 && d < 8);
    assert!(*rays[s as usize][d] == ray_ref(s, d));
    kani::cover!(true, "harness end reachable");
}
