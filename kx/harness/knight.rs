//! Kani rows for the knight (child module of board::piece::knight)
use super::*;
//@INCLUDE attack_ref.inc
/// LEDGER knight_attacks [C06]: exact for all 64 squares, never wrapping around an edge
#[kani::proof]
#[kani::unwind(66)]
fn knight_exact() {
    let t = <Knight as Precomputed>::init_attacks();
    let s: u8 = kani::any();
    kani::assume(s < 64);
    assert!(*t[s as usize] == leaper_ref(s, &KNIGHT_DELTAS));
    kani::cover!(true, "harness end reachable");
}
