//! Kani rows for pawn attacks (child module of board::piece::pawn)
use super::*;
//@INCLUDE attack_ref.inc
/// LEDGER pawn_attacks [C06]: both colours, all 64 squares
#[kani::proof]
#[kani::unwind(66)]
fn pawn_exact() {
    let t = <Pawn as PrecomputedColor>::init_attacks();
    let s: u8 = kani::any();
    kani::assume(s < 64);
    assert!(*t[Color::White as usize][s as usize] == leaper_ref(s, &WHITE_PAWN_DELTAS));
    assert!(*t[Color::Black as usize][s as usize] == leaper_ref(s, &BLACK_PAWN_DELTAS));
    kani::cover!(true, "harness end reachable");
}
