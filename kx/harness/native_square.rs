//! natively evaluated ground facts about `impl From<&str> for Square` (ledger sq_literals: the axioms in
//! vx/prelude/pb_view.rs, zkey_model.rs, square_lits.rs) -- child module of board::square
use super::*;

#[test]
fn sq_literals() {
    // every square name, hence in particular the 14 literals the engine's code uses
    for rank in 0..8u8 {
        for file in 0..8u8 {
            let name = format!("{}{}", (b'a' + file) as char, rank + 1);
            assert_eq!(Square::from(name.as_str()), Square { rank, file }, "Square::from({name})");
        }
    }
    for i in 0..64u8 {
        let s = Square::from(i);
        assert_eq!(s, Square { rank: i / 8, file: i % 8 });
        assert_eq!(u8::from(s), i);
        assert_eq!(usize::from(s), i as usize);
        assert_eq!(s.u8(), i);
        assert_eq!(s.get_mask(), 1u64 << i);
        assert_eq!(u64::from(s), 1u64 << i);
    }
}
