//! Kani ledger rows for Square (child module of board::square)
use super::*;

fn any_sq() -> Square {
    let r: u8 = kani::any();
    let f: u8 = kani::any();
    kani::assume(r < 8 && f < 8);
    Square { rank: r, file: f }
}

/// LEDGER sq_index: the index conversions are rank*8+file on valid squares and invert Square::from(u8); masks are single bits
#[kani::proof]
fn sq_index() {
    let s = any_sq();
    let i = s.rank * 8 + s.file;
    assert!(u8::from(s) == i);
    assert!(usize::from(s) == i as usize);
    assert!(s.u8() == i);
    assert!(u64::from(s) == 1u64 << i);
    assert!(s.get_mask() == 1u64 << i);
    assert!(s.get_rank_mask() == 0xFFu64 << (8 * s.rank));
    assert!(s.get_file_mask() == 0x0101_0101_0101_0101u64 << s.file);
    assert!(Square::from(i) == s);
    let v: u8 = kani::any();
    kani::assume(v < 64);
    let t = Square::from(v);
    assert!(t.rank < 8 && t.file < 8 && t.rank * 8 + t.file == v);
    kani::cover!(true, "harness end reachable");
}

/// LEDGER sq_step: adding a direction moves one step in rank/file with wrapping u8 arithmetic (off the board edge the
/// coordinate becomes 255 or 8, never another board square)
#[kani::proof]
fn sq_step() {
    let s = any_sq();
    let dirs = [(Direction::North, 1i16, 0i16), (Direction::NorthEast, 1, 1), (Direction::East, 0, 1), (Direction::SouthEast, -1, 1),
                (Direction::South, -1, 0), (Direction::SouthWest, -1, -1), (Direction::West, 0, -1), (Direction::NorthWest, 1, -1)];
    let i: usize = kani::any();
    kani::assume(i < 8);
    let (d, dr, df) = dirs[i];
    let t = s + d;
    assert!(t.rank as i16 == (s.rank as i16 + dr).rem_euclid(256));
    assert!(t.file as i16 == (s.file as i16 + df).rem_euclid(256));
    kani::cover!(true, "harness end reachable");
}
