//! Kani rows for the rook (child module of board::piece::rook)
use super::*;
use crate::board::bitboard::Bitboard;
//@INCLUDE attack_ref.inc
type PIECE = Rook;
const DIRS: [usize; 4] = [0, 2, 4, 6];
fn piece_ref(s: u8, occ: u64) -> u64 { rook_ref(s, occ) }
//@INCLUDE slider.inc
