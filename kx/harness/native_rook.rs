//! natively evaluated ground facts for the rook's magic table (child module of board::piece::rook)
use super::*;
//@INCLUDE attack_ref.inc
type PIECE = Rook;
const EXPECTED_CASES: u64 = 102_400;
fn piece_ref(s: u8, occ: u64) -> u64 { rook_ref(s, occ) }
//@INCLUDE native_slider.inc
#[test]
fn rook_table_lookup_exact() { table_lookup_exact_inner() }
