#!/bin/sh
# Replays of the C09 / C14 defects against the real binary. Each `go` must be answered by exactly one bestmove line.
B=${1:-/repo/target/debug/rust_chess_engine}
fail=0
run() { # position, go command
  out=$( (printf 'position %s\n%s\n' "$1" "$2"; sleep 2; echo quit) | timeout 20 "$B" 2>/dev/null)
  n=$(printf '%s\n' "$out" | grep -c '^bestmove ')
  if [ "$n" = 1 ]; then echo "ok   : [$1] $2 -> $(printf '%s\n' "$out" | grep '^bestmove ')"; else echo "FAIL : [$1] $2 -> $n bestmove lines"; fail=1; fi
}
run startpos "go depth 1"
run startpos "go nodes 1"
run startpos "go movetime 0"
run startpos "go wtime 1 btime 1"
run "fen 7k/8/8/8/1p6/pPp5/PRP5/KB6 b - - 0 1" "go depth 3"
# C14: a depth-limited search reports every depth up to N
out=$( (printf 'position startpos\ngo depth 3\n'; sleep 4; echo quit) | timeout 20 "$B" 2>/dev/null)
d=$(printf '%s\n' "$out" | grep -c '^info depth ')
if [ "$d" = 3 ]; then echo "ok   : go depth 3 reported 3 iterations"; else echo "FAIL : go depth 3 reported $d iterations"; fail=1; fi
exit $fail
