
#[cfg(test)]
mod verif_replay_c13 {
    //! C13 replay: after a node-limited (aborted) search, look for a cache entry marked Exact whose score differs
    //! from the value a fresh, uninterrupted search of the same position to the same depth computes.
    use super::*;
    use crate::evaluate::simple_evaluator::SimpleEvaluator;

    fn clear() {
        TRANSPOSITION_TABLE.write().unwrap().clear();
    }

    fn fresh_value(p: &Board, depth: Depth) -> Score {
        clear();
        let mut s = Search::new(p, None);
        let d = if p.clone().is_in_check(p.current_turn) { depth - 1 } else { depth };
        s.alpha_beta(&SimpleEvaluator, Score::MIN, Score::MAX, d, Instant::now())
    }

    fn is_mate(s: Score) -> bool {
        s <= Score::MIN + 300 || s >= Score::MAX - 300
    }

    #[test]
    fn c13_aborted_search_leaves_no_wrong_exact_entries() {
        let root = Board::from_fen("r1bqkbnr/pppp1ppp/2n5/4p3/2B1P3/5N2/PPPP1PPP/RNBQK2R b KQkq - 3 3");
        let mut found: Option<String> = None;
        'outer: for n in (20..3000u64).step_by(37) {
            clear();
            let mut s = Search::new(&root, Some(SearchLimits::new().nodes(Some(n))));
            // iterative deepening as in iter_deep, without the bestmove line
            s.start();
            let start = Instant::now();
            for d in 1..=4 {
                s.alpha_beta_start(&SimpleEvaluator, d, start);
                if !s.is_running() || s.limits_exceeded(start) {
                    break;
                }
            }
            let snapshot: Vec<(crate::board::zkey::ZKey, TTEntry)> =
                TRANSPOSITION_TABLE.read().unwrap().iter().map(|(k, v)| (*k, *v)).collect();
            // positions within two plies of the root
            let mut positions = vec![root.clone()];
            let mut b = root.clone();
            for m in b.get_legal_moves() {
                b.make_move(m);
                positions.push(b.clone());
                for m2 in b.get_legal_moves() {
                    b.make_move(m2);
                    positions.push(b.clone());
                    for m3 in b.get_legal_moves() {
                        b.make_move(m3);
                        positions.push(b.clone());
                        b.unmake_move();
                    }
                    b.unmake_move();
                }
                b.unmake_move();
            }
            for p in &positions {
                if let Some((_, e)) = snapshot.iter().find(|(k, _)| *k == p.zkey) {
                    if e.depth >= 1 && !is_mate(e.score) {
                        let truth = fresh_value(p, e.depth);
                        let consistent = match e.bound {
                            Bounds::Exact => truth == e.score,
                            Bounds::Lower => truth >= e.score,
                            Bounds::Upper => truth <= e.score,
                        };
                        if !consistent && !is_mate(truth) {
                            found = Some(format!(
                                "nodes={n}: cached {:?} score {} at depth {} for key {}, uninterrupted search gives {}",
                                e.bound, e.score, e.depth, p.zkey, truth
                            ));
                            break 'outer;
                        }
                    }
                }
            }
        }
        clear();
        assert!(found.is_none(), "interrupted search left a wrong cache entry: {}", found.unwrap());
    }
}
