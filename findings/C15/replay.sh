#!/bin/sh
# Replays of the C15 defects against the real binary (build /repo first: cargo build --offline).
# Before the fix commits each of the first four killed the engine (no readyok), the last never terminated.
B=${1:-/repo/target/debug/rust_chess_engine}
for inp in "go wtime" "go depth" "setoption name value x" "setoption value v name n"; do
  out=$(printf '%s\nisready\nquit\n' "$inp" | timeout 5 "$B" 2>/dev/null)
  case "$out" in *readyok*) echo "ok   : '$inp' answered readyok";; *) echo "FAIL : '$inp' no readyok"; fi_=1;; esac
done
out=$(printf '\377\376\nisready\nquit\n' | timeout 5 "$B" 2>/dev/null)
case "$out" in *readyok*) echo "ok   : undecodable line survived";; *) echo "FAIL : undecodable line killed the engine"; fi_=1;; esac
printf 'isready\n' | timeout 5 "$B" >/dev/null 2>&1; rc=$?
[ $rc -eq 124 ] && { echo "FAIL : engine still running 5 s after end of input"; fi_=1; } || echo "ok   : engine terminated at end of input"
exit ${fi_:-0}
