#[cfg(test)]
mod verif_replay_c02 {
    use super::*;
    #[test]
    fn c02_repeat_then_probe() {
        let mut b = BoardBuilder::construct_starting_board().build();
        for m in ["g1f3", "g8f6", "f3g1", "f6g8"] {
            let p = b.find_move(m).unwrap();
            b.make_move(p);
        }
        // position now equals start position, which is in the record of earlier positions
        let snapshot = b.clone();
        let k = b.zkey;
        assert!(b.position_reached(k));
        let p = b.find_move("g1f3").unwrap();
        b.make_move(p);
        b.unmake_move();
        assert_eq!(b.position_reached(k), snapshot.position_reached(k), "record of earlier positions changed by make+unmake");
        assert!(b == snapshot);
    }
}
