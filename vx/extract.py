#!/usr/bin/env python3
"""Mechanical extraction of real RCE items into a single Verus file.

A unit template (vx/units/*.rs.in) is ordinary Verus text plus directive lines:

  //@INCLUDE <path relative to vx/>
  //@TYPE <file> :: <struct|enum|type> <Name> [derive=A,B,..] [as=NewName]
  //@CONST <file> :: <scope> :: <NAME>
  //@FN <file> :: <scope> :: <name> [ret=<ident>] [as=<name>] [self=<mode>] [opt...]
  <contract clauses, copied between the signature and the body>
  //@LOOP <ordinal>
  <loop clauses, copied between the loop header and the loop body>
  //@END

For //@FN the signature and the body are copied byte-for-byte from /repo, after
the closed list of rewrite rules in DESIGN.md section 2.2 (each application is
logged with before/after text).  Nothing can be inserted inside a statement.
Anything the extractor cannot find raises ExtractError -> the unit is
*undecided*, never a pass and never an alarm.
"""
import json
import os
import re
import sys


class ExtractError(Exception):
    pass


# --------------------------------------------------------------------------
# lexical masking: same-length copy of the source where comments, string and
# char literal *contents* are blanked, so brace matching / regexes are safe.
# --------------------------------------------------------------------------
def mask_code(src):
    out = list(src)
    i, n = 0, len(src)
    while i < n:
        c = src[i]
        if c == '/' and i + 1 < n and src[i + 1] == '/':
            j = src.find('\n', i)
            if j < 0:
                j = n
            for k in range(i, j):
                out[k] = ' '
            i = j
        elif c == '/' and i + 1 < n and src[i + 1] == '*':
            depth, j = 1, i + 2
            while j < n and depth:
                if src.startswith('/*', j):
                    depth += 1
                    j += 2
                elif src.startswith('*/', j):
                    depth -= 1
                    j += 2
                else:
                    j += 1
            for k in range(i, j):
                if out[k] != '\n':
                    out[k] = ' '
            i = j
        elif c == '"' or (c == 'r' and re.match(r'r#*"', src[i:i + 8]) and not (i > 0 and (src[i - 1].isalnum() or src[i - 1] == '_'))) \
                or (c == 'b' and i + 1 < n and src[i + 1] == '"' and not (i > 0 and (src[i - 1].isalnum() or src[i - 1] == '_'))):
            if c == 'b':
                i += 1
                c = '"'
            if c == 'r':
                m = re.match(r'r(#*)"', src[i:])
                hashes = m.group(1)
                start = i + len(m.group(0))
                endtok = '"' + hashes
                j = src.find(endtok, start)
                if j < 0:
                    raise ExtractError('unterminated raw string')
                for k in range(start, j):
                    if out[k] != '\n':
                        out[k] = ' '
                i = j + len(endtok)
            else:
                j = i + 1
                while j < n and src[j] != '"':
                    if src[j] == '\\':
                        j += 1
                    j += 1
                for k in range(i + 1, j):
                    if out[k] != '\n':
                        out[k] = ' '
                i = j + 1
        elif c == "'":
            # char literal or lifetime
            m = re.match(r"'(\\.[^']*|[^'\\])'", src[i:i + 12])
            if m:
                for k in range(i + 1, i + len(m.group(0)) - 1):
                    out[k] = ' '
                i += len(m.group(0))
            else:
                i += 1
        else:
            i += 1
    return ''.join(out)


def match_close(masked, open_idx):
    """index of the bracket matching masked[open_idx]"""
    pairs = {'{': '}', '(': ')', '[': ']'}
    o = masked[open_idx]
    c = pairs[o]
    depth = 0
    for i in range(open_idx, len(masked)):
        ch = masked[i]
        if ch == o:
            depth += 1
        elif ch == c:
            depth -= 1
            if depth == 0:
                return i
    raise ExtractError('unbalanced bracket at %d' % open_idx)


def strip_tests(src):
    m = re.search(r'#\[cfg\(test\)\]\s*(pub\s+)?mod\s+tests\b', src)
    return src[:m.start()] if m else src


def ws_regex(text):
    """regex matching `text` with flexible whitespace"""
    toks = re.findall(r'[A-Za-z_0-9]+|\S', text)
    return r'\s*'.join(re.escape(t) for t in toks)


class Source:
    def __init__(self, repo, rel):
        self.rel = rel
        path = os.path.join(repo, rel)
        if not os.path.exists(path):
            raise ExtractError('lost anchor: file %s' % rel)
        self.src = strip_tests(open(path).read())
        self.masked = mask_code(self.src)

    def scope_ranges(self, scope):
        """list of (body_start, body_end) for the given scope header"""
        if scope in ('', '-', 'top'):
            return [(0, len(self.src))]
        rx = re.compile(r'(?<![A-Za-z_0-9])' + ws_regex(scope) + r'\s*\{')
        res = []
        for m in rx.finditer(self.masked):
            o = m.end() - 1
            c = match_close(self.masked, o)
            res.append((o + 1, c))
        if not res:
            raise ExtractError('lost anchor: scope `%s` in %s' % (scope, self.rel))
        return res

    def depth0_find(self, rng, rx):
        """first match of rx inside rng at brace depth 0 relative to rng"""
        s, e = rng
        depth = 0
        i = s
        # precompute depth at each match start
        for m in rx.finditer(self.masked, s, e):
            seg = self.masked[i:m.start()]
            depth += seg.count('{') - seg.count('}')
            i = m.start()
            if depth == 0:
                return m
        return None

    def find_fn(self, scope, name):
        rx = re.compile(r'\bfn\s+' + re.escape(name) + r'\b')
        for rng in self.scope_ranges(scope):
            m = self.depth0_find(rng, rx)
            if not m:
                continue
            # walk back over qualifiers
            start = m.start()
            pre = self.masked[rng[0]:start]
            q = re.search(r'((pub(\s*\([^)]*\))?|const|unsafe|async|extern\s+"\s*C\s*")\s+)*$', pre)
            start = rng[0] + q.start()
            # signature end: first `{` or `;` at paren depth 0
            i = m.end()
            pd = 0
            while i < len(self.masked):
                ch = self.masked[i]
                if ch in '([':
                    pd += 1
                elif ch in ')]':
                    pd -= 1
                elif ch == '{' and pd == 0:
                    break
                elif ch == ';' and pd == 0:
                    raise ExtractError('fn %s in `%s` has no body' % (name, scope))
                i += 1
            body_open = i
            body_close = match_close(self.masked, body_open)
            return start, body_open, body_close
        raise ExtractError('lost anchor: fn %s in scope `%s` of %s' % (name, scope, self.rel))

    def find_type(self, kind, name):
        rx = re.compile(r'\b' + kind + r'\s+' + re.escape(name) + r'\b')
        m = self.depth0_find((0, len(self.src)), rx)
        if not m:
            raise ExtractError('lost anchor: %s %s in %s' % (kind, name, self.rel))
        start = m.start()
        pre = self.masked[:start]
        q = re.search(r'(pub(\s*\([^)]*\))?\s+)?$', pre)
        start = q.start()
        # attributes directly above (derive etc.)
        attrs = []
        k = start
        while True:
            mm = re.search(r'(#\[[^\]]*\]|//[^\n]*)\s*$', self.src[:k])
            if not mm:
                break
            attrs.insert(0, mm.group(1))
            k = mm.start()
        i = m.end()
        if kind == 'type':
            depth = 0
            while not (self.masked[i] == ';' and depth == 0):
                if self.masked[i] in '([{<':
                    depth += 1
                elif self.masked[i] in ')]}>':
                    depth -= 1
                i += 1
        while self.masked[i] not in '{;(':
            i += 1
        if self.masked[i] == ';':
            end = i + 1
        elif self.masked[i] == '(':
            end = match_close(self.masked, i)
            end = self.masked.index(';', end) + 1
        else:
            end = match_close(self.masked, i) + 1
        return start, end, attrs

    def find_const(self, scope, name):
        rx = re.compile(r'\b(const|static)\s+' + re.escape(name) + r'\b')
        for rng in self.scope_ranges(scope):
            m = self.depth0_find(rng, rx)
            if not m:
                continue
            start = m.start()
            pre = self.masked[rng[0]:start]
            q = re.search(r'(pub(\s*\([^)]*\))?\s+)?$', pre)
            start = rng[0] + q.start()
            i = m.end()
            depth = 0
            while True:
                ch = self.masked[i]
                if ch in '([{':
                    depth += 1
                elif ch in ')]}':
                    depth -= 1
                elif ch == ';' and depth == 0:
                    break
                i += 1
            return start, i + 1
        raise ExtractError('lost anchor: const %s in `%s` of %s' % (name, scope, self.rel))


# --------------------------------------------------------------------------
# rewrite rules (DESIGN.md section 2.2).  Each returns new text and appends to
# log a record {rule, before, after}.
# --------------------------------------------------------------------------
def split_top_commas(text):
    masked = mask_code(text)
    parts, depth, last = [], 0, 0
    for i, ch in enumerate(masked):
        if ch in '([{':
            depth += 1
        elif ch in ')]}':
            depth -= 1
        elif ch == ',' and depth == 0:
            parts.append(text[last:i])
            last = i + 1
    parts.append(text[last:])
    return [p.strip() for p in parts if p.strip()]


def strip_docs(text, log, where):
    new = re.sub(r'^[ \t]*///[^\n]*\n', '', text, flags=re.M)
    new = re.sub(r'^[ \t]*#\[allow\([^\]]*\)\]\s*\n', '', new, flags=re.M)
    new = re.sub(r'^[ \t]*#\[cfg_attr\([^\]]*\)\]\s*\n', '', new, flags=re.M)
    if new != text:
        log.append({'rule': 'drop-docs-and-allow', 'where': where})
    return new


FMT_MACROS = ('format', 'println', 'eprintln', 'print', 'eprint')


def rw_R3_format(text, log, where):
    """format!(..)/println!(..) -> block that still evaluates the arguments"""
    while True:
        masked = mask_code(text)
        m = re.search(r'\b(' + '|'.join(FMT_MACROS) + r')!\s*\(', masked)
        if not m:
            return text
        o = m.end() - 1
        c = match_close(masked, o)
        args = split_top_commas(text[o + 1:c])
        rest = args[1:]
        lets = ''.join('let _a%d = &(%s); ' % (i, a) for i, a in enumerate(rest))
        opaque = 'fmt_opaque()' if m.group(1) == 'format' else 'print_opaque()'
        new = '{ ' + lets + opaque + ' }'
        log.append({'rule': 'R3', 'where': where, 'before': text[m.start():c + 1], 'after': new})
        text = text[:m.start()] + new + text[c + 1:]


def rw_panic_args(text, log, where):
    """panic!/unreachable!/expect with format args: keep the macro, drop the text arguments
    (Verus rejects Display formatting of user types); reachability obligation unchanged."""
    while True:
        masked = mask_code(text)
        m = None
        for mm in re.finditer(r'\b(panic|unreachable)!\s*\(', masked):
            o = mm.end() - 1
            c = match_close(masked, o)
            if text[o + 1:c].strip() != '':
                m = mm
                break
        if not m:
            return text
        new = m.group(1) + '!()'
        log.append({'rule': 'R3p', 'where': where, 'before': text[m.start():c + 1], 'after': new})
        text = text[:m.start()] + new + text[c + 1:]


def rw_assert_msg(text, log, where):
    """assert!(cond, "msg" ..) -> assert!(cond)"""
    pos = 0
    while True:
        masked = mask_code(text)
        m = re.compile(r'\bassert!\s*\(').search(masked, pos)
        if not m:
            return text
        o = m.end() - 1
        c = match_close(masked, o)
        args = split_top_commas(text[o + 1:c])
        if len(args) > 1:
            new = 'assert!(' + args[0] + ')'
            log.append({'rule': 'R3a', 'where': where, 'before': text[m.start():c + 1], 'after': new})
            text = text[:m.start()] + new + text[c + 1:]
        pos = m.end()


def receiver_start(masked, r):
    """start index of the postfix expression that ends at r (just before `.method`)"""
    k = r
    while k > 0:
        ch = masked[k - 1]
        if ch.isalnum() or ch in '_.':
            k -= 1
        elif ch in ')]':
            opn = {')': '(', ']': '['}[ch]
            depth = 0
            j = k - 1
            while j >= 0:
                if masked[j] == ch:
                    depth += 1
                elif masked[j] == opn:
                    depth -= 1
                    if depth == 0:
                        break
                j -= 1
            k = j
        elif ch.isspace():
            j = k - 1
            while j > 0 and masked[j - 1].isspace():
                j -= 1
            if masked[k:r + 1].lstrip().startswith('.') and j > 0 and (masked[j - 1].isalnum() or masked[j - 1] in '_)]'):
                k = j
            else:
                break
        else:
            break
    return k


def rw_R16_position(text, log, where):
    """X.iter().position(|&a| a == LIT) -> slice_position(X, LIT)   (definition of Iterator::position for an equality test)"""
    rx = re.compile(r'\.\s*iter\(\)\s*\.\s*position\(\s*\|\s*&\s*(\w+)\s*\|\s*\1\s*==\s*("[^"]*")\s*\)')
    while True:
        m = rx.search(text)
        if not m:
            return text
        masked = mask_code(text)
        k = receiver_start(masked, m.start())
        recv = text[k:m.start()].strip()
        new = 'slice_position(%s, %s)' % (recv, m.group(2))
        log.append({'rule': 'R16', 'where': where, 'before': text[k:m.end()], 'after': new})
        text = text[:k] + new + text[m.end():]


def rw_R17_map_or_else(text, log, where):
    """OPT.map_or_else(|| A, |x| B) -> (match OPT { None => A, Some(x) => B })   (definition of Option::map_or_else)"""
    while True:
        masked = mask_code(text)
        m = re.search(r'\.\s*map_or_else\s*\(', masked)
        if not m:
            return text
        o = m.end() - 1
        c = match_close(masked, o)
        args = split_top_commas(text[o + 1:c])
        if len(args) != 2:
            raise ExtractError('R17: unexpected map_or_else shape in ' + where)
        ma = re.match(r'\|\s*\|\s*(.*)$', args[0], flags=re.S)
        mb = re.match(r'\|\s*([A-Za-z_][A-Za-z_0-9]*)\s*\|\s*(.*)$', args[1], flags=re.S)
        if not ma or not mb:
            raise ExtractError('R17: unexpected closures in map_or_else in ' + where)
        k = receiver_start(masked, m.start())
        recv = text[k:m.start()].strip()
        new = '(match %s { None => %s, Some(%s) => %s })' % (recv, ma.group(1).strip(), mb.group(1), mb.group(2).strip())
        log.append({'rule': 'R17', 'where': where, 'before': text[k:c + 1], 'after': new})
        text = text[:k] + new + text[c + 1:]


def rw_R18_to_strings(text, log, where):
    """X.iter().map(ToString::to_string).collect() -> strs_to_owned(X)"""
    rx = re.compile(r'\.\s*iter\(\)\s*\.\s*map\(\s*ToString::to_string\s*\)\s*\.\s*collect\(\)')
    while True:
        m = rx.search(text)
        if not m:
            return text
        masked = mask_code(text)
        k = receiver_start(masked, m.start())
        recv = text[k:m.start()].strip()
        new = 'strs_to_owned(&%s)' % recv
        log.append({'rule': 'R18', 'where': where, 'before': text[k:m.end()], 'after': new})
        text = text[:k] + new + text[m.end():]


def rw_R19_join(text, log, where):
    """X.join(LIT) -> join_strs(&X, LIT)   (opaque String; the slice expression X keeps its bounds obligations)"""
    rx = re.compile(r'\.\s*join\(\s*("[^"]*")\s*\)')
    while True:
        m = rx.search(text)
        if not m:
            return text
        masked = mask_code(text)
        k = receiver_start(masked, m.start())
        recv = text[k:m.start()].strip()
        new = 'join_strs(&%s, %s)' % (recv, m.group(1))
        log.append({'rule': 'R19', 'where': where, 'before': text[k:m.end()], 'after': new})
        text = text[:k] + new + text[m.end():]


def rw_R22_bestmove(text, log, where):
    """the bestmove line: self.log(format!("bestmove {}", E).as_str()) / format!("bestmove {x}") -> self.log_bestmove(Some(E));
    self.log("bestmove 0000") -> self.log_bestmove(None).  Keeps the printed move visible to the contract (R3 would hide it)."""
    while True:
        masked = mask_code(text)
        m = re.search(r'self\s*\.\s*log\s*\(\s*format!\s*\(', masked)
        if not m:
            break
        o = m.end() - 1
        c = match_close(masked, o)
        args = split_top_commas(text[o + 1:c])
        lit = args[0]
        if not lit.startswith('"bestmove'):
            break
        mm = re.match(r'"bestmove \{([a-z_][a-z_0-9]*)?\}"$', lit)
        if not mm:
            raise ExtractError('R22: unexpected bestmove format in %s: %s' % (where, lit))
        if mm.group(1):
            expr = mm.group(1)
        elif len(args) == 2:
            expr = args[1]
        else:
            raise ExtractError('R22: unexpected bestmove arguments in ' + where)
        # closing of self.log( ... )
        lo = masked.index('(', m.start())
        lc = match_close(masked, lo)
        new = 'self.log_bestmove(Some(%s))' % expr
        log.append({'rule': 'R22', 'where': where, 'before': text[m.start():lc + 1], 'after': new})
        text = text[:m.start()] + new + text[lc + 1:]
    rx = re.compile(r'self\s*\.\s*log\s*\(\s*"bestmove 0000"\s*\)')
    if rx.search(text):
        log.append({'rule': 'R22', 'where': where, 'before': 'self.log("bestmove 0000")', 'after': 'self.log_bestmove(None)'})
        text = rx.sub('self.log_bestmove(None)', text)
    return text


def rw_R11_map_collect(text, log, where):
    """V.into_iter().map(|x| E).collect[::<..>]() -> index loop pushing E (definition of map-collect over a Vec of Copy items)"""
    n = 0
    while True:
        masked = mask_code(text)
        m = re.search(r'\.\s*into_iter\(\)\s*\.\s*map\s*\(', masked)
        if not m:
            return text
        o = m.end() - 1
        c = match_close(masked, o)
        clo = text[o + 1:c].strip()
        mc = re.match(r'\|\s*(mut\s+)?([A-Za-z_][A-Za-z_0-9]*)\s*\|\s*(.*)$', clo, flags=re.S)
        if not mc:
            raise ExtractError('R11: unexpected closure in map() in ' + where)
        tail = re.match(r'\s*\.\s*collect\s*(::\s*<[^()]*>)?\s*\(\s*\)', masked[c + 1:])
        if not tail:
            raise ExtractError('R11: map() not followed by collect() in ' + where)
        end = c + 1 + tail.end()
        k = receiver_start(masked, m.start())
        recv = text[k:m.start()].strip()
        n += 1
        var = mc.group(2)
        mut = 'mut ' if mc.group(1) else ''
        expr = mc.group(3).strip()
        new = ('{ let v%d_ = %s; let mut out%d_ = Vec::new(); let mut i%d_: usize = 0; while i%d_ < v%d_.len() '
               '{ let %s%s = v%d_[i%d_]; let e%d_ = %s; out%d_.push(e%d_); i%d_ += 1; } out%d_ }'
               % (n, recv, n, n, n, n, mut, var, n, n, n, expr, n, n, n, n))
        log.append({'rule': 'R11', 'where': where, 'before': text[k:end], 'after': new})
        text = text[:k] + new + text[end:]


def rw_R11c_extend_map(text, log, where):
    """V.extend(X.into_iter().map(|x| E)) -> V.append(&mut X.into_iter().map(|x| E).collect::<Vec<_>>()): the same elements
    in the same order (definition of Extend for Vec), brought to the shape R11 expands"""
    pos = 0
    while True:
        masked = mask_code(text)
        m = re.search(r'\.\s*extend\s*\(', masked[pos:])
        if not m:
            return text
        o = pos + m.end() - 1
        c = match_close(masked, o)
        arg = text[o + 1:c]
        marg = masked[o + 1:c]
        mm = None
        for mm in re.finditer(r'\.\s*into_iter\(\)\s*\.\s*map\s*\(', marg):
            pass
        if mm and match_close(marg, mm.end() - 1) == len(marg.rstrip()) - 1:
            new = '.append(&mut %s.collect::<Vec<_>>())' % arg.strip()
            log.append({'rule': 'R11', 'where': where, 'before': text[pos + m.start():c + 1][:300], 'after': new[:300]})
            text = text[:pos + m.start()] + new + text[c + 1:]
            pos = pos + m.start() + len(new)
        else:
            pos = c + 1


def rw_R11b_iter_map_collect(text, log, where, ret_type=None):
    """S.iter().map(|&x| E).collect() over a slice of Copy items -> index loop pushing E in order (definition of map-collect)"""
    n = 0
    while True:
        masked = mask_code(text)
        m = re.search(r'\.\s*iter\(\)\s*\.\s*map\s*\(\s*\|\s*&', masked)
        if not m:
            return text
        o = masked.index('(', masked.index('map', m.start()))
        c = match_close(masked, o)
        clo = text[o + 1:c].strip()
        mc = re.match(r'\|\s*&\s*([A-Za-z_][A-Za-z_0-9]*)\s*\|\s*(.*)$', clo, flags=re.S)
        if not mc:
            raise ExtractError('R11b: unexpected closure in iter().map() in ' + where)
        tail = re.match(r'\s*\.\s*collect\s*(::\s*<[^()]*>)?\s*\(\s*\)', masked[c + 1:])
        if not tail:
            raise ExtractError('R11b: iter().map() not followed by collect() in ' + where)
        end = c + 1 + tail.end()
        k = receiver_start(masked, m.start())
        recv = text[k:m.start()].strip()
        n += 1
        # when the expression is the function's tail expression its type is the declared return type (needed by loop clauses)
        ann = ''
        if ret_type and re.match(r'Vec\s*<', ret_type) and re.fullmatch(r'[\s}]*', masked[end:]):
            ann = ': ' + ret_type
        new = ('{ let vs%d_ = %s; let mut outs%d_%s = Vec::new(); let mut is%d_: usize = 0; while is%d_ < vs%d_.len() '
               '{ let %s = vs%d_[is%d_]; let es%d_ = %s; outs%d_.push(es%d_); is%d_ += 1; } outs%d_ }'
               % (n, recv, n, ann, n, n, n, mc.group(1), n, n, n, mc.group(2).strip(), n, n, n, n))
        log.append({'rule': 'R11', 'where': where, 'before': text[k:end], 'after': new})
        text = text[:k] + new + text[end:]


def rw_R24_flat_map_collect(text, log, where):
    """V.iter().flat_map(|x| F).collect() -> loop appending F for each element in order (definition of flat_map-collect)"""
    while True:
        masked = mask_code(text)
        m = re.search(r'\.\s*iter\(\)\s*\.\s*flat_map\s*\(', masked)
        if not m:
            return text
        o = m.end() - 1
        c = match_close(masked, o)
        clo = text[o + 1:c].strip()
        mc = re.match(r'\|\s*([A-Za-z_][A-Za-z_0-9]*)\s*\|\s*(.*)$', clo, flags=re.S)
        tail = re.match(r'\s*\.\s*collect\s*(::\s*<[^()]*>)?\s*\(\s*\)', masked[c + 1:])
        if not mc or not tail:
            raise ExtractError('R24: unexpected flat_map shape in ' + where)
        end = c + 1 + tail.end()
        k = receiver_start(masked, m.start())
        recv = text[k:m.start()].strip()
        new = ('{ let mut outf_ = Vec::new(); let mut if_: usize = 0; while if_ < %s.len() '
               '{ let %s = &%s[if_]; let mut part_ = %s; outf_.append(&mut part_); if_ += 1; } outf_ }'
               % (recv, mc.group(1), recv, mc.group(2).strip()))
        log.append({'rule': 'R24', 'where': where, 'before': text[k:end], 'after': new})
        text = text[:k] + new + text[end:]


def rw_R25_filter_collect(text, log, where):
    """V.into_iter().filter(|x| E).collect[::<..>]() -> loop keeping, in order, the elements for which E holds"""
    while True:
        masked = mask_code(text)
        m = re.search(r'\.\s*into_iter\(\)\s*\.\s*filter\s*\(', masked)
        if not m:
            return text
        o = m.end() - 1
        c = match_close(masked, o)
        clo = text[o + 1:c].strip()
        mc = re.match(r'\|\s*([A-Za-z_][A-Za-z_0-9]*)\s*\|\s*(.*)$', clo, flags=re.S)
        tail = re.match(r'\s*\.\s*collect\s*(::\s*<[^()]*>)?\s*\(\s*\)', masked[c + 1:])
        if not mc or not tail:
            raise ExtractError('R25: unexpected filter shape in ' + where)
        end = c + 1 + tail.end()
        k = receiver_start(masked, m.start())
        recv = text[k:m.start()].strip()
        new = ('{ let vf_ = %s; let mut kept_ = Vec::new(); let mut ik_: usize = 0; while ik_ < vf_.len() '
               '{ let %s = &vf_[ik_]; if %s { kept_.push(vf_[ik_]); } ik_ += 1; } kept_ }'
               % (recv, mc.group(1), mc.group(2).strip()))
        log.append({'rule': 'R25', 'where': where, 'before': text[k:end], 'after': new})
        text = text[:k] + new + text[end:]


def rw_R12_retain(text, log, where):
    """V.retain(|x| E); -> loop keeping, in order, the elements for which E holds (definition of Vec::retain for a
    predicate that does not panic); removes the closure capturing &mut self that Verus cannot type"""
    while True:
        masked = mask_code(text)
        # retain(f) with a named predicate value: the same loop, calling f on a reference to each element
        mn = re.search(r'\b([a-z_][A-Za-z_0-9]*)\s*\.\s*retain\s*\(\s*([a-z_][A-Za-z_0-9]*)\s*\)\s*;', masked)
        if mn:
            v, fname = mn.group(1), mn.group(2)
            new = ('{ let mut kept_ = Vec::new(); let mut ir_: usize = 0; while ir_ < %s.len() '
                   '{ if %s(&%s[ir_]) { kept_.push(%s[ir_]); } ir_ += 1; } %s = kept_; }' % (v, fname, v, v, v))
            log.append({'rule': 'R12', 'where': where, 'before': text[mn.start():mn.end()], 'after': new})
            text = text[:mn.start()] + new + text[mn.end():]
            continue
        m = re.search(r'\b([a-z_][A-Za-z_0-9]*)\s*\.\s*retain\s*\(\s*\|\s*([A-Za-z_][A-Za-z_0-9]*)\s*\|', masked)
        if not m:
            return text
        o = masked.index('(', m.start())
        c = match_close(masked, o)
        body = text[m.end():c].strip()
        j = c + 1
        while masked[j].isspace():
            j += 1
        if masked[j] != ';':
            raise ExtractError('R12: retain() not used as a statement in ' + where)
        v, x = m.group(1), m.group(2)
        new = ('{ let mut kept_ = Vec::new(); let mut ir_: usize = 0; while ir_ < %s.len() '
               '{ let %s = &%s[ir_]; if %s { kept_.push(%s[ir_]); } ir_ += 1; } %s = kept_; }'
               % (v, x, v, body, v, v))
        log.append({'rule': 'R12', 'where': where, 'before': text[m.start():j + 1], 'after': new})
        text = text[:m.start()] + new + text[j + 1:]


def rw_R26_find(text, log, where):
    """V.into_iter().find(|x| E) -> loop returning the first element for which E holds (definition of Iterator::find)"""
    while True:
        masked = mask_code(text)
        m = re.search(r'\.\s*into_iter\(\)\s*\.\s*find\s*\(', masked)
        if not m:
            return text
        o = m.end() - 1
        c = match_close(masked, o)
        clo = text[o + 1:c].strip()
        mc = re.match(r'\|\s*([A-Za-z_][A-Za-z_0-9]*)\s*\|\s*(.*)$', clo, flags=re.S)
        if not mc:
            raise ExtractError('R26: unexpected find shape in ' + where)
        k = receiver_start(masked, m.start())
        recv = text[k:m.start()].strip()
        new = ('{ let vs_ = %s; let mut found_ = None; let mut is_: usize = 0; while is_ < vs_.len() '
               '{ let %s = &vs_[is_]; if %s { found_ = Some(vs_[is_]); break; } is_ += 1; } found_ }'
               % (recv, mc.group(1), mc.group(2).strip()))
        log.append({'rule': 'R26', 'where': where, 'before': text[k:c + 1], 'after': new})
        text = text[:k] + new + text[c + 1:]


def rw_assert_eq(text, log, where):
    """assert_eq!(A, B [, msg..]) -> assert!((A) == (B))  (same panic condition)"""
    while True:
        masked = mask_code(text)
        m = re.search(r'\bassert_eq!\s*\(', masked)
        if not m:
            return text
        o = m.end() - 1
        c = match_close(masked, o)
        args = split_top_commas(text[o + 1:c])
        new = 'assert!((%s) == (%s))' % (args[0], args[1])
        log.append({'rule': 'R3e', 'where': where, 'before': text[m.start():c + 1], 'after': new})
        text = text[:m.start()] + new + text[c + 1:]


def rw_R9_is_some_and(text, log, where):
    while True:
        masked = mask_code(text)
        m = re.search(r'\.\s*is_some_and\s*\(\s*\|\s*([A-Za-z_][A-Za-z_0-9]*)\s*\|', masked)
        if not m:
            return text
        o = masked.index('(', m.start())
        c = match_close(masked, o)
        body = text[m.end():c].strip()
        r = m.start()
        k = receiver_start(masked, r)
        recv = text[k:r].strip()
        new = '(match %s { Some(%s) => %s, None => false })' % (recv, m.group(1), body)
        log.append({'rule': 'R9', 'where': where, 'before': text[k:c + 1], 'after': new})
        text = text[:k] + new + text[c + 1:]


def rw_R14_closure_underscore(text, log, where):
    new = re.sub(r'\|\s*_\s*\|', '|_unused|', text)
    if new != text:
        log.append({'rule': 'R14', 'where': where})
    return new


def rw_R15_mut_self(sig, body, log, where):
    m = re.search(r'\(\s*mut\s+self\b', sig)
    if not m:
        return sig, body
    sig2 = sig[:m.start()] + '(self' + sig[m.end():]
    masked = mask_code(body)
    out, last = [], 0
    for mm in re.finditer(r'\bself\b', masked):
        out.append(body[last:mm.start()])
        out.append('s_')
        last = mm.end()
    out.append(body[last:])
    b2 = ''.join(out)
    # body starts with '{'
    b2 = '{ let mut s_ = self;' + b2[1:]
    log.append({'rule': 'R15', 'where': where})
    return sig2, b2


def rw_mut_param(sig, body, log, where):
    """`mut x: T` parameters -> rebinding (Verus rejects mut params)"""
    masked = mask_code(sig)
    names = re.findall(r'[(,]\s*mut\s+([a-z_][A-Za-z_0-9]*)\s*:', masked)
    if not names:
        return sig, body
    for nm in names:
        sig = re.sub(r'([(,]\s*)mut\s+' + nm + r'(\s*:)', r'\1' + nm + r'\2', sig)
    # the entry value stays nameable in loop invariants as <name>_0 (ghost copy: no effect on the executable code)
    lets = ''.join(' let ghost %s_0 = %s; let mut %s = %s;' % (nm, nm, nm, nm) for nm in names)
    body = '{' + lets + body[1:]
    log.append({'rule': 'R15m', 'where': where, 'params': names})
    return sig, body


def loop_headers(body):
    """positions (keyword_start, body_open_brace) of loops in text order"""
    masked = mask_code(body)
    res = []
    for m in re.finditer(r'\b(while|for|loop)\b', masked):
        # skip `for` in `impl X for Y` / HRTB -- not expected inside bodies
        i = m.end()
        pd = 0
        while i < len(masked):
            ch = masked[i]
            if ch in '([':
                pd += 1
            elif ch in ')]':
                pd -= 1
            elif ch == '{' and pd == 0:
                break
            i += 1
        res.append((m.start(), i, m.group(1)))
    return res


def rw_R2_for_to_loop(body, log, where, force=()):
    """for PAT in EXPR BODY -> iterator loop, when Verus cannot take the for form:
    the loop body contains `continue`, or the directive forces it by ordinal."""
    ordinal = 0
    pos = 0
    while True:
        hs = [h for h in loop_headers(body) if h[0] >= pos]
        if not hs:
            return body
        kw, ob, kind = hs[0]
        ordinal += 1
        pos = kw + 1
        if kind != 'for':
            continue
        masked = mask_code(body)
        cb = match_close(masked, ob)
        inner = body[ob + 1:cb]
        needs = ordinal in force or re.search(r'\bcontinue\b', mask_code(inner))
        if not needs:
            continue
        head = body[kw:ob]
        mh = re.match(r'for\s+(.*?)\s+in\s+(.*)$', head.strip(), flags=re.S)
        if not mh:
            raise ExtractError('R2: cannot parse for header in %s: %r' % (where, head))
        pat, expr = mh.group(1), mh.group(2).strip()
        new = ('{ let mut it_%d = %s; loop { let %s = match it_%d.next() { Some(x_) => x_, None => break }; %s } }'
               % (ordinal, expr, pat, ordinal, inner))
        log.append({'rule': 'R2', 'where': where, 'loop': ordinal, 'before': head.strip(), 'after': 'let mut it_%d = %s; loop { let %s = match it_%d.next() {..}; .. }' % (ordinal, expr, pat, ordinal)})
        body = body[:kw] + new + body[cb + 1:]
        pos = kw + len('{ let mut it_%d = %s; ' % (ordinal, expr))


def rw_R1_for_array(body, log, where):
    """for PAT in [E1,..,En] BODY -> unrolled blocks"""
    while True:
        masked = mask_code(body)
        m = re.search(r'\bfor\s+(\([^)]*\)|[A-Za-z_][A-Za-z_0-9]*)\s+in\s+\[', masked)
        if not m:
            return body
        ob = m.end() - 1
        cbk = match_close(masked, ob)
        j = cbk + 1
        while masked[j].isspace():
            j += 1
        if masked[j] != '{':
            return body
        cb = match_close(masked, j)
        elems = split_top_commas(body[ob + 1:cbk])
        inner = body[j + 1:cb]
        pat = body[m.start(1):m.end(1)]
        def bind(pat, e):
            # tuple pattern over a tuple literal: bind component-wise (same meaning; keeps constants visible
            # to the solver instead of hiding them behind a tuple constructor)
            if pat.startswith('(') and e.startswith('(') and e.endswith(')'):
                ps = split_top_commas(pat[1:-1])
                es = split_top_commas(e[1:-1])
                if len(ps) == len(es) and all(re.match(r'^[a-z_][A-Za-z_0-9]*$', q) for q in ps):
                    return ' '.join('let %s = %s;' % (q, x) for q, x in zip(ps, es))
            return 'let %s = %s;' % (pat, e)
        new = ''.join('{ %s %s }\n' % (bind(pat, e), inner) for e in elems)
        log.append({'rule': 'R1', 'where': where, 'elements': len(elems)})
        body = body[:m.start()] + new + body[cb + 1:]


def rw_R13_oncelock(body, log, where, table):
    """STATIC.get_or_init(F) -> prelude accessor; drop `assert!(STATIC.get().is_none());`"""
    def repl(m):
        key = m.group(1)
        if key not in table:
            raise ExtractError('R13: no accessor registered for static %s (%s)' % (key, where))
        init = ''.join(m.group(2).split())
        allowed = table.get(key + '::inits')
        if allowed is not None and init not in allowed:
            raise ExtractError('R13: static %s initialised by `%s` in %s, not by the verified initialiser (%s)' % (key, init, where, ' | '.join(allowed)))
        log.append({'rule': 'R13', 'where': where, 'before': m.group(0), 'after': table[key]})
        return table[key]
    body = re.sub(r'\b([A-Z_]+)\s*\.\s*get_or_init\s*\(\s*([A-Za-z_:]+(?:\s*::\s*[A-Za-z_]+)*)\s*\)', repl, body)
    new = re.sub(r'assert!\(\s*[A-Z_]+\.get\(\)\.is_none\(\)\s*\)\s*;', '', body)
    if new != body:
        log.append({'rule': 'R13a', 'where': where, 'dropped': 'assert!(STATIC.get().is_none())'})
    return new


def apply_text_rules(text, log, where, opts):
    # explicit substitutions of the unit (closed list in the template) come first
    for before, after in opts.get('subst', []):
        rx = re.compile(ws_regex(before))
        if not rx.search(text):
            # the text a substitution stands for is gone: go on with the code as it is now -- Verus then either checks the new
            # text against the contract or rejects a construct outside its subset (undecided); never a silent pass
            log.append({'rule': 'Rsub-anchor-absent', 'where': where, 'before': before})
            continue
        n = len(rx.findall(text))
        log.append({'rule': 'Rsub', 'where': where, 'before': before, 'after': after, 'count': n})
        text = rx.sub(lambda m: after, text)
    for before, after in opts.get('subst_opt', []):
        rx = re.compile(ws_regex(before))
        n = len(rx.findall(text))
        if n:
            log.append({'rule': 'Rsub', 'where': where, 'before': before, 'after': after, 'count': n})
            text = rx.sub(lambda m: after, text)
    text = rw_R22_bestmove(text, log, where)
    text = rw_R3_format(text, log, where)
    text = rw_panic_args(text, log, where)
    text = rw_assert_eq(text, log, where)
    text = rw_assert_msg(text, log, where)
    text = rw_R9_is_some_and(text, log, where)
    text = rw_R16_position(text, log, where)
    text = rw_R17_map_or_else(text, log, where)
    text = rw_R18_to_strings(text, log, where)
    text = rw_R19_join(text, log, where)
    text = rw_R11c_extend_map(text, log, where)
    text = rw_R11_map_collect(text, log, where)
    text = rw_R11b_iter_map_collect(text, log, where, opts.get('ret_type'))
    text = rw_R24_flat_map_collect(text, log, where)
    text = rw_R25_filter_collect(text, log, where)
    text = rw_R12_retain(text, log, where)
    text = rw_R26_find(text, log, where)
    text = rw_R14_closure_underscore(text, log, where)
    text = rw_R1_for_array(text, log, where)
    return text


# --------------------------------------------------------------------------
# template processing
# --------------------------------------------------------------------------
def parse_kv(parts):
    opts = {}
    for p in parts:
        if '=' in p:
            k, v = p.split('=', 1)
            opts[k] = v
        else:
            opts[p] = True
    return opts


class Unit:
    def __init__(self, repo, vxdir):
        self.repo = repo
        self.vxdir = vxdir
        self.sources = {}
        self.log = []
        self.functions = []   # {name, file, scope, out_name, line_start, line_end}
        self.types = []
        self.subst_rules = {}  # name -> list of (before, after) from //@SUBST
        self.rsubst_rules = {}
        self.statics = {}
        self.aspect_mods = []
        self.conjunction_rule = []
        self.verus_args = []
        self.ranges = []

    def source(self, rel):
        if rel not in self.sources:
            self.sources[rel] = Source(self.repo, rel)
        return self.sources[rel]

    def expand(self, template_path):
        lines = open(template_path).read().split('\n')
        out = []
        i = 0
        while i < len(lines):
            ln = lines[i]
            st = ln.strip()
            if st.startswith('//@RANGE'):
                # //@RANGE fn :: kind-substring :: clause-substring :: why   (undischarged machine-range obligation)
                parts = [x.strip() for x in st[len('//@RANGE'):].split('::')]
                self.ranges.append({'function': parts[0], 'kind': parts[1], 'clause': parts[2], 'why': parts[3] if len(parts) > 3 else ''})
                i += 1
            elif st.startswith('//@VERUS-ARGS'):
                self.verus_args += st.split()[1:]
                i += 1
            elif st.startswith('//@INCLUDE'):
                inc = st.split(None, 1)[1].strip()
                out.append(self.expand(os.path.join(self.vxdir, inc)))
                i += 1
            elif st.startswith('//@STATIC'):
                # //@STATIC NAME => accessor_expr
                # optionally `:: Init1|Init2`: the only initialiser expressions the accessor's contract stands for
                mm = re.match(r'//@STATIC\s+(\S+)\s*=>\s*(.*?)(?:\s+::\s+(.*))?$', st)
                self.statics[mm.group(1)] = mm.group(2).strip()
                if mm.group(3):
                    self.statics[mm.group(1) + '::inits'] = [x.strip() for x in mm.group(3).split('|')]
                i += 1
            elif st.startswith('//@RSUBST'):
                # //@RSUBST key :: python-regex ==> replacement with \\1.. backreferences (pattern-shaped instances of a rule)
                mm = re.match(r'//@RSUBST\s+(\S+)\s*::\s*(.*?)\s*==>\s*(.*)$', st)
                if not mm:
                    raise ExtractError('bad RSUBST directive: ' + st)
                self.rsubst_rules.setdefault(mm.group(1), []).append((mm.group(2), mm.group(3)))
                i += 1
            elif st.startswith('//@SUBST'):
                # //@SUBST key :: before ==> after     (closed list R4/R6/R7/R10/R11/R12 instances)
                mm = re.match(r'//@SUBST\s+(\S+)\s*::\s*(.*?)\s*==>\s*(.*)$', st)
                if not mm:
                    raise ExtractError('bad SUBST directive: ' + st)
                self.subst_rules.setdefault(mm.group(1), []).append(
                    (mm.group(2).replace('\\n', '\n'), mm.group(3).replace('\\n', '\n')))
                i += 1
            elif st.startswith('//@TYPE'):
                out.append(self.do_type(st))
                i += 1
            elif st.startswith('//@CONST'):
                out.append(self.do_const(st))
                i += 1
            elif st.startswith('//@FN'):
                j = i + 1
                contract, loops, cur, aspects, asp = [], {}, None, [], None
                while j < len(lines) and not lines[j].strip().startswith('//@END'):
                    s2 = lines[j].strip()
                    if s2.startswith('//@LOOP'):
                        cur = int(s2.split()[1])
                        loops[cur] = []
                        asp = None
                    elif s2.startswith('//@ASPECT'):
                        parts = s2.split()
                        asp = {'name': parts[1], 'opts': parse_kv(parts[2:]), 'lines': []}
                        aspects.append(asp)
                        cur = None
                    elif asp is not None:
                        asp['lines'].append(lines[j])
                    elif cur is None:
                        contract.append(lines[j])
                    else:
                        loops[cur].append(lines[j])
                    j += 1
                if j >= len(lines):
                    raise ExtractError('unterminated //@FN directive: ' + st)
                text = self.do_fn(st, '\n'.join(contract), {k: '\n'.join(v) for k, v in loops.items()}, aspects)
                out.append(text)
                i = j + 1
            elif st.startswith('//@ASPECT-MODULES'):
                out.append('\n'.join(self.aspect_mods))
                self.aspect_mods = []
                i += 1
            else:
                out.append(ln)
                i += 1
        return '\n'.join(out)

    def do_type(self, directive):
        body = directive[len('//@TYPE'):].strip()
        rel, rest = [x.strip() for x in re.split(r'\s::\s', body, 1)]
        parts = rest.split()
        kind, name = parts[0], parts[1]
        opts = parse_kv(parts[2:])
        src = self.source(rel)
        s, e, attrs = src.find_type(kind, name)
        text = src.src[s:e]
        text = strip_docs(text, self.log, name)
        text = re.sub(r'^[ \t]*#\[[^\]]*\]\s*\n', '', text, flags=re.M)  # variant/field attributes (#[default] ..)
        text = re.sub(r'^\s*//[^\n]*\n', '', text, flags=re.M)
        # R8: fields public
        if kind == 'struct':
            hd, _, tl = text.partition('{')
            if tl:
                tl = re.sub(r'^(\s*)(?!pub\b)([a-z_][A-Za-z_0-9]*\s*:)', r'\1pub \2', tl, flags=re.M)
                text = hd + '{' + tl
            else:
                text = re.sub(r'\((\s*)(?!pub\b)', r'(\1pub ', text, count=1)
        if not re.match(r'pub\b', text):
            text = 'pub ' + text
        for before, after in self.subst_rules.get('type:' + name, []):
            rx = re.compile(ws_regex(before))
            if not rx.search(text):
                raise ExtractError('type substitution anchor lost in %s: %r' % (name, before))
            self.log.append({'rule': 'Rtype', 'where': name, 'before': before, 'after': after})
            text = rx.sub(lambda m: after, text)
        if 'as' in opts:
            text = re.sub(r'\b' + re.escape(name) + r'\b', opts['as'], text, count=1)
        derive = opts.get('derive', '')
        orig = ' '.join(a for a in attrs if a.startswith('#['))
        self.log.append({'rule': 'type', 'name': name, 'file': rel, 'original_attrs': orig, 'derive_used': derive, 'R8': 'fields made pub'})
        self.types.append({'name': name, 'file': rel})
        hdr = ''
        if derive:
            ds = derive.split(',')
            if 'Structural' in ds:
                ds.remove('Structural')
                hdr += '#[derive(%s)]\n#[derive(Structural)]\n' % ', '.join(ds) if ds else '#[derive(Structural)]\n'
            else:
                hdr += '#[derive(%s)]\n' % ', '.join(ds)
        return hdr + text

    def do_const(self, directive):
        body = directive[len('//@CONST'):].strip()
        rel, scope, name = [x.strip() for x in re.split(r'\s::\s', body, 2)]
        name = name.split()[0]
        src = self.source(rel)
        s, e = src.find_const(scope, name)
        text = src.src[s:e]
        text = re.sub(r'^[ \t]*#\[allow[^\]]*\]\s*\n', '', text, flags=re.M)
        if not re.match(r'pub\b', text):
            text = 'pub ' + text
        # R28: `&str` in the type of a const item means `&'static str` (lifetime elision in const items); Verus wants it spelled out
        m = re.match(r'(pub\s+const\s+\w+\s*:\s*)([^=]*?)(\s*=)', text)
        if m and re.search(r"&\s*str\b", m.group(2)):
            text = m.group(1) + re.sub(r"&\s*str\b", "&'static str", m.group(2)) + text[m.end(2):]
            self.log.append({'rule': 'R28', 'where': name, 'what': "&str -> &'static str in the type of a const item"})
        self.log.append({'rule': 'const', 'name': name, 'file': rel})
        return text

    def do_fn(self, directive, contract, loops, aspects=()):
        body = directive[len('//@FN'):].strip()
        rel, scope, rest = [x.strip() for x in re.split(r'\s::\s', body, 2)]
        parts = rest.split()
        name = parts[0]
        opts = parse_kv(parts[1:])
        src = self.source(rel)
        s, bo, bc = src.find_fn(scope, name)
        sig = src.src[s:bo].rstrip()
        fbody = src.src[bo:bc + 1]
        out_name = opts.get('as', name)
        where = '%s::%s' % (scope if scope not in ('', '-', 'top') else rel, name)
        original = sig + ' ' + fbody
        # ---- signature adjustments
        for before, after in self.subst_rules.get('sig:' + name, []) + self.subst_rules.get('sig:*', []):
            rx = re.compile(ws_regex(before))
            if rx.search(sig):
                self.log.append({'rule': 'Rsig', 'where': where, 'before': before, 'after': after})
                sig = rx.sub(lambda m: after, sig)
            elif ('sig:' + name) in self.subst_rules and (before, after) in self.subst_rules['sig:' + name]:
                raise ExtractError('signature substitution anchor lost in %s: %r' % (where, before))
        # R27: a function-pointer parameter `p: fn(A) -> B` is taken as `p: impl Fn(A) -> B` (every fn pointer is an Fn; Verus
        # has no function-pointer types). Only the parameter's type changes; calls through it are unchanged.
        sig_r27 = re.sub(r'(:\s*)fn(\s*\([^()]*\)\s*->\s*[A-Za-z_][A-Za-z_0-9<>]*)', r'\1impl Fn\2', sig)
        if sig_r27 != sig:
            self.log.append({'rule': 'R27', 'where': where, 'before': sig.strip()[:200], 'after': sig_r27.strip()[:200]})
            sig = sig_r27
        sig0 = sig
        sig = re.sub(r'\bconst\s+(unsafe\s+)?fn\b', r'\1fn', sig)
        if sig != sig0:
            self.log.append({'rule': 'drop-const-qualifier', 'where': where})
        is_trait_impl = bool(re.match(r'impl\b.*\bfor\b', scope)) and 'selfty' not in opts
        if not re.match(r'pub\b', sig) and not is_trait_impl:
            sig = 'pub ' + sig  # R8
        sig = re.sub(r'^pub\s*\([^)]*\)', 'pub', sig)
        if out_name != name:
            sig = re.sub(r'\bfn\s+' + re.escape(name) + r'\b', 'fn ' + out_name, sig, count=1)
        if 'selfty' in opts:
            # R5: a trait-impl method emitted as a free/inherent function: `Self` spelled out
            sig = re.sub(r'\bSelf\b', opts['selfty'], sig)
            self.log.append({'rule': 'R5', 'where': where, 'note': 'trait impl method extracted as a plain function; Self -> ' + opts['selfty']})
        if 'ret' in opts:
            m = None
            for m in re.finditer(r'->\s*((?:(?!->).)*)$', sig, flags=re.S):
                pass
            if not m:
                raise ExtractError('ret= given but %s has no return type' % where)
            sig = sig[:m.start()] + '-> (%s: %s)' % (opts['ret'], m.group(1).strip())
        sig = re.sub(r'\bimpl\s+Evaluator\b', 'SimpleEvaluator', sig) if opts.get('mono_eval') else sig
        # ---- body rewrites
        fbody = strip_docs(fbody, self.log, where)
        if 'selfty' in opts:
            mk = mask_code(fbody)
            outp, lastp = [], 0
            for mm in re.finditer(r'\bSelf\b', mk):
                outp.append(fbody[lastp:mm.start()]); outp.append(opts['selfty']); lastp = mm.end()
            outp.append(fbody[lastp:]); fbody = ''.join(outp)
        sig, fbody = rw_R15_mut_self(sig, fbody, self.log, where)
        sig, fbody = rw_mut_param(sig, fbody, self.log, where)
        mrt = None
        for mrt in re.finditer(r'->\s*(?:\(\s*[a-z_]+\s*:\s*)?((?:(?!->).)*?)\)?\s*$', sig, flags=re.S):
            pass
        o2 = {'ret_type': mrt.group(1).strip() if mrt else None, 'subst': self.subst_rules.get(name, []) + self.subst_rules.get(where, []) + (self.subst_rules.get(where.replace(' ', '_'), []) if ' ' in where else []),
              'subst_opt': self.subst_rules.get('*', [])}
        for rx_, rep_ in self.rsubst_rules.get(name, []):
            if not re.search(rx_, fbody):
                self.log.append({'rule': 'Rsub-anchor-absent', 'where': where, 'before': '/' + rx_ + '/'})
                continue
            self.log.append({'rule': 'Rsub', 'where': where, 'before': '/' + rx_ + '/', 'after': rep_, 'count': len(re.findall(rx_, fbody))})
            fbody = re.sub(rx_, rep_, fbody)
        fbody = apply_text_rules(fbody, self.log, where, o2)
        if self.statics:
            fbody = rw_R13_oncelock(fbody, self.log, where, self.statics)
        force = tuple(int(x) for x in opts['r2'].split(',')) if 'r2' in opts else ()
        fbody = rw_R2_for_to_loop(fbody, self.log, where, force)
        # ---- splice loop clauses
        if loops:
            hs = loop_headers(fbody)
            for ordn in sorted(loops, reverse=True):
                if ordn > len(hs):
                    raise ExtractError('lost anchor: loop %d of %s (found %d loops)' % (ordn, where, len(hs)))
                _, ob, _ = hs[ordn - 1]
                fbody = fbody[:ob] + '\n' + loops[ordn] + '\n' + fbody[ob:]
        attrs = ''
        if opts.get('nodecreases'):
            attrs += '#[verifier::exec_allows_no_decreases_clause]\n'
        if opts.get('noisolation'):
            # loops see the facts established before them (needed where a `mut` parameter's entry value, R15, must stay
            # linked to the parameter named in the postcondition)
            attrs += '#[verifier::loop_isolation(false)]\n'
        if opts.get('external_body'):
            attrs += '#[verifier::external_body]\n'
        sha = __import__('hashlib').sha256(original.encode()).hexdigest()[:16]
        if not aspects:
            text = attrs + sig + '\n' + contract.rstrip() + '\n' + fbody + '\n'
            self.functions.append({'name': name, 'out_name': out_name, 'file': rel, 'scope': scope,
                                   'source_sha': sha, 'contract': contract.strip(), 'props': opts.get('props', '')})
            ty = re.sub(r'^.*\bfor\s+', '', scope).replace('impl', '').strip()
            ty = re.sub(r'[^A-Za-z0-9_]', '', ty)
            label = (ty + '::' + out_name) if ty and scope not in ('', '-', 'top') else out_name
            self.functions[-1]['label'] = label
            return '/*@BEGIN-FN %s*/\n%s/*@END-FN %s*/' % (label, text, label)
        # ---- aspects: the same signature, requires and body verified once per group of ensures clauses,
        # each copy in its own module (parallel, small queries).  Callers see the conjunction of the
        # aspects' ensures (Hoare conjunction rule; the union is generated here, never hand-written).
        ens_all = []
        for a in aspects:
            etext = '\n'.join(a['lines']).strip()
            if not etext.startswith('ensures'):
                raise ExtractError('aspect %s of %s must start with `ensures`' % (a['name'], where))
            ens_all.append(etext[len('ensures'):].strip().rstrip(','))
            aname = '%s__%s' % (out_name, a['name'])
            asig = re.sub(r'\bfn\s+' + re.escape(out_name) + r'\b', 'fn ' + aname, sig, count=1)
            uses = a['opts'].get('use', '')
            use_line = ('broadcast use {%s};\n' % ', '.join('super::' + u for u in uses.split(','))) if uses else ''
            atext = attrs + asig + '\n' + contract.rstrip() + '\n' + etext + '\n' + fbody + '\n'
            self.aspect_mods.append('mod asp_%s {\nuse super::*;\n%s%s {\n/*@BEGIN-FN %s*/\n%s/*@END-FN %s*/\n}\n}\n'
                                    % (aname, use_line, scope, aname, atext, aname))
            self.functions.append({'name': name, 'out_name': aname, 'file': rel, 'scope': scope,
                                   'source_sha': sha, 'contract': (contract.strip() + '\n' + etext).strip(), 'aspect': a['name'],
                                   'props': a['opts'].get('props', opts.get('props', ''))})
        union = contract.rstrip() + '\n    ensures\n        ' + ',\n        '.join(ens_all) + ',\n'
        self.conjunction_rule.append({'function': where, 'aspects': [a['name'] for a in aspects]})
        self.log.append({'rule': 'conjunction', 'where': where, 'aspects': [a['name'] for a in aspects]})
        text = '#[verifier::external_body] /* conjunction of verified aspects %s */\n' % ','.join(a['name'] for a in aspects) \
            + attrs + sig + '\n' + union + fbody + '\n'
        return text


def find_item_anywhere(repo, name):
    """text of `const NAME` / `static NAME` found in any source file (outside test modules)"""
    for root, _, files in os.walk(os.path.join(repo, 'src')):
        for fn in sorted(files):
            if not fn.endswith('.rs'):
                continue
            rel = os.path.relpath(os.path.join(root, fn), repo)
            src = Source(repo, rel)
            m = re.search(r'\b(const|static)\s+' + re.escape(name) + r'\b', src.masked)
            if not m:
                continue
            pre = src.masked[:m.start()]
            q = re.search(r'(pub(\s*\([^)]*\))?\s+)?$', pre)
            i = m.end()
            depth = 0
            while True:
                ch = src.masked[i]
                if ch in '([{':
                    depth += 1
                elif ch in ')]}':
                    depth -= 1
                elif ch == ';' and depth == 0:
                    break
                i += 1
            text = src.src[q.start():i + 1]
            if not re.match(r'pub\b', text):
                text = 'pub ' + text
            return rel, text
    return None


def build_unit(repo, vxdir, template, out_path, extra_consts=()):
    u = Unit(repo, vxdir)
    text = u.expand(template)
    if extra_consts:
        add = []
        for name in extra_consts:
            found = find_item_anywhere(repo, name)
            if not found:
                raise ExtractError('identifier %s used by an extracted function is not a const/static of the crate' % name)
            add.append('// auto-extracted because an extracted function refers to it (%s)\n%s' % found)
            u.log.append({'rule': 'auto-const', 'name': name, 'file': found[0]})
        text = re.sub(r'^verus! \{[ \t]*$', lambda m: m.group(0) + '\n' + '\n'.join(add), text, count=1, flags=re.M)
    with open(out_path, 'w') as f:
        f.write(text)
    # line map of functions
    fnmap = []
    cur = None
    for ln, line in enumerate(text.split('\n'), 1):
        m = re.match(r'/\*@BEGIN-FN (\S+)\*/', line)
        if m:
            cur = {'fn': m.group(1), 'start': ln}
        m = re.search(r'/\*@END-FN (\S+)\*/', line)
        if m and cur:
            cur['end'] = ln
            cur['props'] = [x for x in next((f.get('props', '') for f in u.functions if f.get('label', f['out_name']) == cur['fn']), '').split(',') if x]
            fnmap.append(cur)
            cur = None
    if u.aspect_mods:
        raise ExtractError('aspects declared but no //@ASPECT-MODULES marker')
    return {'functions': u.functions, 'types': u.types, 'log': u.log, 'fnmap': fnmap, 'conjunction_rule': u.conjunction_rule, 'verus_args': u.verus_args, 'ranges': u.ranges}


if __name__ == '__main__':
    import argparse
    ap = argparse.ArgumentParser()
    ap.add_argument('template')
    ap.add_argument('-o', '--out', required=True)
    ap.add_argument('--repo', default='/repo')
    a = ap.parse_args()
    vxdir = os.path.dirname(os.path.abspath(__file__))
    try:
        info = build_unit(a.repo, vxdir, a.template, a.out)
    except ExtractError as e:
        print('EXTRACT-ERROR:', e, file=sys.stderr)
        sys.exit(2)
    json.dump(info, open(a.out + '.extract.json', 'w'), indent=1)
    print('extracted %d functions, %d types, %d rewrite applications' % (len(info['functions']), len(info['types']), len(info['log'])))
