// =====================================================================================
// R7: the macro-generated operator impls of Bitboard (src/board/bitboard.rs) cannot be extracted textually.
// LEDGER bb_ops (Kani, on the real impls): each is the corresponding u64 operation on the wrapped word.
// =====================================================================================
impl vstd::std_specs::ops::BitAndSpecImpl<Bitboard> for Bitboard {
    open spec fn obeys_bitand_spec() -> bool { true }
    open spec fn bitand_req(self, rhs: Bitboard) -> bool { true }
    open spec fn bitand_spec(self, rhs: Bitboard) -> Bitboard { Bitboard(self.0 & rhs.0) }
}
impl core::ops::BitAnd<Bitboard> for Bitboard {
    type Output = Bitboard;
    #[verifier::external_body]
    fn bitand(self, rhs: Bitboard) -> (r: Bitboard) { unimplemented!() }
}
impl vstd::std_specs::ops::BitAndSpecImpl<u64> for Bitboard {
    open spec fn obeys_bitand_spec() -> bool { true }
    open spec fn bitand_req(self, rhs: u64) -> bool { true }
    open spec fn bitand_spec(self, rhs: u64) -> Bitboard { Bitboard(self.0 & rhs) }
}
impl core::ops::BitAnd<u64> for Bitboard {
    type Output = Bitboard;
    #[verifier::external_body]
    fn bitand(self, rhs: u64) -> (r: Bitboard) { unimplemented!() }
}
impl vstd::std_specs::ops::BitOrSpecImpl<Bitboard> for Bitboard {
    open spec fn obeys_bitor_spec() -> bool { true }
    open spec fn bitor_req(self, rhs: Bitboard) -> bool { true }
    open spec fn bitor_spec(self, rhs: Bitboard) -> Bitboard { Bitboard(self.0 | rhs.0) }
}
impl core::ops::BitOr<Bitboard> for Bitboard {
    type Output = Bitboard;
    #[verifier::external_body]
    fn bitor(self, rhs: Bitboard) -> (r: Bitboard) { unimplemented!() }
}
impl vstd::std_specs::ops::BitOrAssignSpecImpl<Bitboard> for Bitboard {
    open spec fn obeys_bitor_assign_spec() -> bool { true }
    open spec fn bitor_assign_req(&self, rhs: Bitboard) -> bool { true }
    open spec fn bitor_assign_spec(&self, rhs: Bitboard) -> &Bitboard { &Bitboard(self.0 | rhs.0) }
}
impl core::ops::BitOrAssign<Bitboard> for Bitboard {
    #[verifier::external_body]
    fn bitor_assign(&mut self, rhs: Bitboard) { unimplemented!() }
}
impl vstd::std_specs::ops::NotSpecImpl for Bitboard {
    open spec fn obeys_not_spec() -> bool { true }
    open spec fn not_req(self) -> bool { true }
    open spec fn not_spec(self) -> Bitboard { Bitboard(!self.0) }
}
impl core::ops::Not for Bitboard {
    type Output = Bitboard;
    #[verifier::external_body]
    fn not(self) -> (r: Bitboard) { unimplemented!() }
}
impl Bitboard {
    #[verifier::external_body]
    pub fn new(value: u64) -> (r: Bitboard) ensures r.0 == value { unimplemented!() }
    #[verifier::external_body]
    pub fn is_empty(self) -> (r: bool) ensures r == (self.0 == 0) { unimplemented!() }
}

// ---- bits of a u64 (spec) and the facts about them the units need (each proved by(bit_vector))
pub open spec fn bit(x: u64, i: int) -> bool { (x >> (i as u64)) & 1u64 == 1u64 }
pub broadcast proof fn lemma_bit_test(x: u64, s: u8)
    requires s < 64,
    ensures #[trigger] (x & (1u64 << s)) == 0 <==> !bit(x, s as int),
{
    let t = s as u64;
    assert(t < 64 ==> ((x & (1u64 << t)) == 0 <==> !((x >> t) & 1u64 == 1u64))) by(bit_vector);
    assert((1u64 << s) == (1u64 << t)) by(bit_vector) requires t == s as u64, s < 64;
}
pub broadcast proof fn lemma_bit_or(x: u64, y: u64, i: int)
    requires 0 <= i < 64,
    ensures #[trigger] bit(x | y, i) == (bit(x, i) || bit(y, i)),
{
    let t = i as u64;
    assert(t < 64 ==> ((((x | y) >> t) & 1u64 == 1u64) == (((x >> t) & 1u64 == 1u64) || ((y >> t) & 1u64 == 1u64)))) by(bit_vector);
}
pub broadcast proof fn lemma_bit_and(x: u64, y: u64, i: int)
    requires 0 <= i < 64,
    ensures #[trigger] bit(x & y, i) == (bit(x, i) && bit(y, i)),
{
    let t = i as u64;
    assert(t < 64 ==> ((((x & y) >> t) & 1u64 == 1u64) == (((x >> t) & 1u64 == 1u64) && ((y >> t) & 1u64 == 1u64)))) by(bit_vector);
}
pub broadcast proof fn lemma_bit_zero(i: int)
    requires 0 <= i < 64,
    ensures !#[trigger] bit(0u64, i),
{
    let t = i as u64;
    assert(t < 64 ==> !((0u64 >> t) & 1u64 == 1u64)) by(bit_vector);
}

// ---- shifts (LEDGER bb_ops): `Bitboard << u32` is checked_shl(..).unwrap_or(0); `Bitboard >> usize` is the plain u64 shift
pub open spec fn bb_shl(x: u64, n: u32) -> u64 { if n < 64 { x << (n as u64) } else { 0u64 } }
impl vstd::std_specs::ops::ShlSpecImpl<u32> for Bitboard {
    open spec fn obeys_shl_spec() -> bool { true }
    open spec fn shl_req(self, rhs: u32) -> bool { true }
    open spec fn shl_spec(self, rhs: u32) -> Bitboard { Bitboard(bb_shl(self.0, rhs)) }
}
impl core::ops::Shl<u32> for Bitboard {
    type Output = Bitboard;
    #[verifier::external_body]
    fn shl(self, rhs: u32) -> (r: Bitboard) { unimplemented!() }
}
impl vstd::std_specs::ops::ShrSpecImpl<usize> for Bitboard {
    open spec fn obeys_shr_spec() -> bool { true }
    open spec fn shr_req(self, rhs: usize) -> bool { rhs < 64 }
    open spec fn shr_spec(self, rhs: usize) -> Bitboard { Bitboard(self.0 >> (rhs as u64)) }
}
impl core::ops::Shr<usize> for Bitboard {
    type Output = Bitboard;
    #[verifier::external_body]
    fn shr(self, rhs: usize) -> (r: Bitboard) { unimplemented!() }
}
/// the square n steps "up" (towards rank 8) from index i is empty or off the board
pub broadcast proof fn lemma_front_up(all: u64, i: u32, n: u32)
    requires i < 64, n == 8 || n == 16,
    ensures #[trigger] (bb_shl(bb_shl(1u64, i), n) & all) == 0 <==> (i + n >= 64 || !bit(all, (i + n) as int)),
{
    let a = i as u64; let b = n as u64;
    assert(a < 64 && (b == 8 || b == 16) ==> ((((1u64 << a) << b) & all) == 0 <==> (add(a, b) >= 64 || !((all >> add(a, b)) & 1u64 == 1u64)))) by(bit_vector);
}
/// the square n steps "down" (towards rank 1)
pub broadcast proof fn lemma_front_down(all: u64, i: u32, n: usize)
    requires i < 64, n == 8 || n == 16,
    ensures #[trigger] ((bb_shl(1u64, i) >> (n as u64)) & all) == 0 <==> (i < n || !bit(all, (i - n) as int)),
{
    let a = i as u64; let b = n as u64;
    assert(a < 64 && (b == 8 || b == 16) ==> ((((1u64 << a) >> b) & all) == 0 <==> (a < b || !((all >> sub(a, b)) & 1u64 == 1u64)))) by(bit_vector);
}

// ---- more of Bitboard's API (LEDGER bb_ops / bb_scan_step / bb_count_ones), so that code using it stays within reach
impl vstd::std_specs::ops::BitOrSpecImpl<u64> for Bitboard {
    open spec fn obeys_bitor_spec() -> bool { true }
    open spec fn bitor_req(self, rhs: u64) -> bool { true }
    open spec fn bitor_spec(self, rhs: u64) -> Bitboard { Bitboard(self.0 | rhs) }
}
impl core::ops::BitOr<u64> for Bitboard {
    type Output = Bitboard;
    #[verifier::external_body]
    fn bitor(self, rhs: u64) -> (r: Bitboard) { unimplemented!() }
}
impl vstd::std_specs::ops::BitXorSpecImpl<Bitboard> for Bitboard {
    open spec fn obeys_bitxor_spec() -> bool { true }
    open spec fn bitxor_req(self, rhs: Bitboard) -> bool { true }
    open spec fn bitxor_spec(self, rhs: Bitboard) -> Bitboard { Bitboard(self.0 ^ rhs.0) }
}
impl core::ops::BitXor<Bitboard> for Bitboard {
    type Output = Bitboard;
    #[verifier::external_body]
    fn bitxor(self, rhs: Bitboard) -> (r: Bitboard) { unimplemented!() }
}
impl vstd::std_specs::ops::BitAndAssignSpecImpl<Bitboard> for Bitboard {
    open spec fn obeys_bitand_assign_spec() -> bool { true }
    open spec fn bitand_assign_req(&self, rhs: Bitboard) -> bool { true }
    open spec fn bitand_assign_spec(&self, rhs: Bitboard) -> &Bitboard { &Bitboard(self.0 & rhs.0) }
}
impl core::ops::BitAndAssign<Bitboard> for Bitboard {
    #[verifier::external_body]
    fn bitand_assign(&mut self, rhs: Bitboard) { unimplemented!() }
}
impl vstd::std_specs::ops::BitOrAssignSpecImpl<u64> for Bitboard {
    open spec fn obeys_bitor_assign_spec() -> bool { true }
    open spec fn bitor_assign_req(&self, rhs: u64) -> bool { true }
    open spec fn bitor_assign_spec(&self, rhs: u64) -> &Bitboard { &Bitboard(self.0 | rhs) }
}
impl core::ops::BitOrAssign<u64> for Bitboard {
    #[verifier::external_body]
    fn bitor_assign(&mut self, rhs: u64) { unimplemented!() }
}
impl vstd::std_specs::convert::FromSpecImpl<u64> for Bitboard {
    open spec fn obeys_from_spec() -> bool { true }
    open spec fn from_spec(v: u64) -> Bitboard { Bitboard(v) }
}
impl From<u64> for Bitboard {
    #[verifier::external_body]
    fn from(value: u64) -> (r: Bitboard) ensures r.0 == value { unimplemented!() }
}
impl vstd::std_specs::convert::FromSpecImpl<Square> for Bitboard {
    open spec fn obeys_from_spec() -> bool { false }
    open spec fn from_spec(s: Square) -> Bitboard { Bitboard(0) }
}
impl From<Square> for Bitboard {
    /// `Self(1 << u8::from(square))` (LEDGER sq_index)
    #[verifier::external_body]
    fn from(square: Square) -> (r: Bitboard)
        ensures square.rank < 8 && square.file < 8 ==> r.0 == 1u64 << ((square.rank * 8 + square.file) as u64),
    { unimplemented!() }
}
pub uninterp spec fn popcount64(x: u64) -> u32;
impl Bitboard {
    #[verifier::external_body]
    pub fn count_ones(self) -> (r: u32) ensures r == popcount64(self.0), r <= 64 { unimplemented!() }
    #[verifier::external_body]
    pub fn bitscan_forward(self) -> (r: u32) ensures r == vstd::std_specs::bits::u64_trailing_zeros(self.0) { unimplemented!() }
    #[verifier::external_body]
    pub fn bitscan_reverse(self) -> (r: u32) requires self.0 != 0, ensures r == 63 - vstd::std_specs::bits::u64_leading_zeros(self.0) { unimplemented!() }
}
pub broadcast proof fn lemma_bit_not(x: u64, i: int)
    requires 0 <= i < 64,
    ensures #[trigger] bit(!x, i) == !bit(x, i),
{
    let t = i as u64;
    assert(t < 64 ==> ((((!x) >> t) & 1u64 == 1u64) == !((x >> t) & 1u64 == 1u64))) by(bit_vector);
}
