// (assumptions of the Verus side; see ledger.json)
// ---------------------------------------------------------------- Square::from("e1") literals
pub uninterp spec fn str_sq(s: Seq<char>) -> Square;
impl From<&str> for Square {
    #[verifier::external_body]
    fn from(algebraic_notation: &str) -> (r: Self)
        ensures r == str_sq(algebraic_notation@),
    { unimplemented!() }
}
// LEDGER sq_literals: the real `impl From<&str> for Square` evaluated natively on these literals
pub broadcast axiom fn axiom_str_sq_a1() ensures #[trigger] str_sq("a1"@) == sq(0, 0);
pub broadcast axiom fn axiom_str_sq_c1() ensures #[trigger] str_sq("c1"@) == sq(0, 2);
pub broadcast axiom fn axiom_str_sq_d1() ensures #[trigger] str_sq("d1"@) == sq(0, 3);
pub broadcast axiom fn axiom_str_sq_e1() ensures #[trigger] str_sq("e1"@) == sq(0, 4);
pub broadcast axiom fn axiom_str_sq_f1() ensures #[trigger] str_sq("f1"@) == sq(0, 5);
pub broadcast axiom fn axiom_str_sq_g1() ensures #[trigger] str_sq("g1"@) == sq(0, 6);
pub broadcast axiom fn axiom_str_sq_h1() ensures #[trigger] str_sq("h1"@) == sq(0, 7);
pub broadcast axiom fn axiom_str_sq_a8() ensures #[trigger] str_sq("a8"@) == sq(7, 0);
pub broadcast axiom fn axiom_str_sq_c8() ensures #[trigger] str_sq("c8"@) == sq(7, 2);
pub broadcast axiom fn axiom_str_sq_d8() ensures #[trigger] str_sq("d8"@) == sq(7, 3);
pub broadcast axiom fn axiom_str_sq_e8() ensures #[trigger] str_sq("e8"@) == sq(7, 4);
pub broadcast axiom fn axiom_str_sq_f8() ensures #[trigger] str_sq("f8"@) == sq(7, 5);
pub broadcast axiom fn axiom_str_sq_g8() ensures #[trigger] str_sq("g8"@) == sq(7, 6);
pub broadcast axiom fn axiom_str_sq_h8() ensures #[trigger] str_sq("h8"@) == sq(7, 7);
pub broadcast group group_str_sq {
    axiom_str_sq_a1, axiom_str_sq_c1, axiom_str_sq_d1, axiom_str_sq_e1, axiom_str_sq_f1, axiom_str_sq_g1, axiom_str_sq_h1,
    axiom_str_sq_a8, axiom_str_sq_c8, axiom_str_sq_d8, axiom_str_sq_e8, axiom_str_sq_f8, axiom_str_sq_g8, axiom_str_sq_h8,
}

// ---------------------------------------------------------------- std
pub open spec fn ply_default() -> Ply {
    Ply {
        start: sq(0, 0), dest: sq(0, 0), piece: Kind::Pawn(Color::White), captured_piece: None, promoted_to: None,
        is_castles: false, en_passant: false, is_double_pawn_push: false, halfmove_clock: 0,
        castling_rights: CastlingRights {
            white_kingside: CastlingStatus::Available, white_queenside: CastlingStatus::Available,
            black_kingside: CastlingStatus::Available, black_queenside: CastlingStatus::Available },
    }
}
