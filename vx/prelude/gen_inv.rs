// ---- board invariants the generators rely on (shared by the board and legal units; need pl(b), last(b))
/// an en-passant file means: the enemy pawn that just made the double step stands on it beside our fifth rank, and the
/// square it skipped is empty
pub open spec fn ep_inv(b: Board) -> bool {
    b.en_passant_file matches Some(f) ==> {
        let c = b.current_turn;
        &&& f < 8
        &&& pl(b)(sq(c_ep_rank(c), f as int)) == Some(Kind::Pawn(opp(c)))
        &&& pl(b)(sq(c_ep_rank(c) + c_fwd(c), f as int)).is_none()
    }
}
/// a castling right that is still there means king and that rook stand on their home squares
pub open spec fn home_inv(b: Board) -> bool {
    let r = last(b).castling_rights;
    &&& (avail(r, CastlingKind::WhiteKingside) ==> pl(b)(sq(0, 4)) == Some(Kind::King(Color::White)) && pl(b)(sq(0, 7)) == Some(Kind::Rook(Color::White)))
    &&& (avail(r, CastlingKind::WhiteQueenside) ==> pl(b)(sq(0, 4)) == Some(Kind::King(Color::White)) && pl(b)(sq(0, 0)) == Some(Kind::Rook(Color::White)))
    &&& (avail(r, CastlingKind::BlackKingside) ==> pl(b)(sq(7, 4)) == Some(Kind::King(Color::Black)) && pl(b)(sq(7, 7)) == Some(Kind::Rook(Color::Black)))
    &&& (avail(r, CastlingKind::BlackQueenside) ==> pl(b)(sq(7, 4)) == Some(Kind::King(Color::Black)) && pl(b)(sq(7, 0)) == Some(Kind::Rook(Color::Black)))
}
/// no pawn stands on its last rank
pub open spec fn pawns_ok(b: Board) -> bool {
    forall|s: Square| sq_ok(s) ==> (match #[trigger] pl(b)(s) { Some(Kind::Pawn(c)) => s.rank != c_last_rank(c), _ => true })
}
