// =====================================================================================
// Attack sets as seen by the Verus side: uninterpreted per piece kind.  LEDGER (C06): each equals the coordinate
// reference of kx/harness/attack_ref.inc on the real code -- Kani rows rays_exact, masks_exact, slow_exact,
// ref_depends_on_mask_only, knight_exact, king_exact, pawn_exact + native rows *_table_lookup_exact.
// =====================================================================================
pub uninterp spec fn pawn_att(s: Square, c: Color) -> u64;
pub uninterp spec fn knight_att(s: Square) -> u64;
pub uninterp spec fn king_att(s: Square) -> u64;
pub uninterp spec fn rook_att(s: Square, occ: u64) -> u64;
pub uninterp spec fn bishop_att(s: Square, occ: u64) -> u64;
/// squares attacked by a piece of kind k standing on s, given the occupancy
pub open spec fn att(k: Kind, s: Square, occ: u64) -> u64 {
    match k {
        Kind::Pawn(c) => pawn_att(s, c),
        Kind::King(_) => king_att(s),
        Kind::Queen(_) => rook_att(s, occ) | bishop_att(s, occ),
        Kind::Rook(_) => rook_att(s, occ),
        Kind::Bishop(_) => bishop_att(s, occ),
        Kind::Knight(_) => knight_att(s),
    }
}

pub struct Pawn;
pub struct King;
pub struct Knight;
pub struct Rook;
pub struct Bishop;
impl Pawn {
    #[verifier::external_body]
    pub fn get_attacks(square: Square, color: Color) -> (r: Bitboard) requires sq_ok(square), ensures r.0 == pawn_att(square, color) { unimplemented!() }
}
impl King {
    #[verifier::external_body]
    pub fn get_attacks(square: Square) -> (r: Bitboard) requires sq_ok(square), ensures r.0 == king_att(square) { unimplemented!() }
}
impl Knight {
    #[verifier::external_body]
    pub fn get_attacks(square: Square) -> (r: Bitboard) requires sq_ok(square), ensures r.0 == knight_att(square) { unimplemented!() }
}
impl Rook {
    /// `<Rook as Magic>::get_attacks`
    #[verifier::external_body]
    pub fn get_attacks(square: Square, blockers: Bitboard) -> (r: Bitboard) requires sq_ok(square), ensures r.0 == rook_att(square, blockers.0) { unimplemented!() }
}
impl Bishop {
    #[verifier::external_body]
    pub fn get_attacks(square: Square, blockers: Bitboard) -> (r: Bitboard) requires sq_ok(square), ensures r.0 == bishop_att(square, blockers.0) { unimplemented!() }
}

// ---- who attacks what on a board
pub open spec fn enemy_bb(b: Board, c: Color) -> u64 { match c { Color::White => b.bitboards.black_pieces.0, Color::Black => b.bitboards.white_pieces.0 } }
pub open spec fn king_bb(b: Board, c: Color) -> u64 { match c { Color::White => b.bitboards.white_king.0, Color::Black => b.bitboards.black_king.0 } }
/// union of the attack sets of the enemy pieces of colour c standing on squares 0..n
pub open spec fn att_upto(b: Board, c: Color, n: int) -> u64
    decreases n,
{
    if n <= 0 { 0u64 } else {
        let prev = att_upto(b, c, n - 1);
        if bit(enemy_bb(b, c), n - 1) {
            match at(b.bitboards)(sq_of(n - 1)) {
                Some(k) => prev | att(k, sq_of(n - 1), b.bitboards.all_pieces.0),
                None => prev,
            }
        } else { prev }
    }
}
/// every square attacked by the opponent of c
pub open spec fn attacked(b: Board, c: Color) -> u64 { att_upto(b, c, 64) }
/// [C01] the side c is in check: its king stands on an attacked square
pub open spec fn in_check_bb(b: Board, c: Color) -> bool { (king_bb(b, c) & attacked(b, c)) != 0 }

/// pointwise reading of the fold: a square is attacked iff some enemy piece attacks it
pub proof fn lemma_attacked_pointwise(b: Board, c: Color, n: int, t: int)
    requires 0 <= n <= 64, 0 <= t < 64,
    ensures bit(att_upto(b, c, n), t) == (exists|j: int| 0 <= j < n && bit(enemy_bb(b, c), j)
                && #[trigger] at(b.bitboards)(sq_of(j)).is_some()
                && bit(att(at(b.bitboards)(sq_of(j)).unwrap(), sq_of(j), b.bitboards.all_pieces.0), t)),
    decreases n,
{
    broadcast use lemma_bit_or, lemma_bit_zero;
    if n > 0 {
        lemma_attacked_pointwise(b, c, n - 1, t);
        let prev = att_upto(b, c, n - 1);
        let hit = |j: int| bit(enemy_bb(b, c), j) && at(b.bitboards)(sq_of(j)).is_some()
                && bit(att(at(b.bitboards)(sq_of(j)).unwrap(), sq_of(j), b.bitboards.all_pieces.0), t);
        if bit(att_upto(b, c, n), t) {
            if bit(prev, t) {
                let j = choose|j: int| 0 <= j < n - 1 && bit(enemy_bb(b, c), j) && #[trigger] at(b.bitboards)(sq_of(j)).is_some()
                    && bit(att(at(b.bitboards)(sq_of(j)).unwrap(), sq_of(j), b.bitboards.all_pieces.0), t);
                assert(0 <= j < n && hit(j));
            } else {
                assert(hit(n - 1));
            }
        }
    }
}
