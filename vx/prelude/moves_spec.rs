// ---- [C01] the moves of each piece kind in FIDE terms (shared by the movegen and legal units)
/// Ply::new(start, dest, piece): a plain move, nothing captured/promoted/flagged, fresh rights record
pub open spec fn all_rights() -> CastlingRights {
    CastlingRights { white_kingside: CastlingStatus::Available, white_queenside: CastlingStatus::Available,
                     black_kingside: CastlingStatus::Available, black_queenside: CastlingStatus::Available }
}
pub open spec fn ply_new(start: Square, dest: Square, piece: Kind) -> Ply {
    Ply { start, dest, piece, captured_piece: None, promoted_to: None, is_castles: false, en_passant: false,
          is_double_pawn_push: false, halfmove_clock: 0, castling_rights: all_rights() }
}
pub open spec fn own_bb(b: Board, c: Color) -> u64 { match c { Color::White => b.bitboards.white_pieces.0, Color::Black => b.bitboards.black_pieces.0 } }
/// [C01] the moves of a non-pawn, non-castling piece: one per square it attacks that is not occupied by its own side,
/// in ascending square order, each exactly once
pub open spec fn step_moves(b: Board, sq: Square, k: Kind) -> Seq<Ply> {
    sq_list(att(k, sq, b.bitboards.all_pieces.0) & !own_bb(b, color_of(k)), 64).map_values(|d: Square| ply_new(sq, d, k))
}
/// [C01] castling may be played: it is that side's move, the right is intact, nothing stands between king and rook, and
/// the king does not stand on, cross or land on an attacked square (FIDE 3.8.2)
pub open spec fn can_castle(b: Board, k: CastlingKind) -> bool {
    castle_color(k) == b.current_turn && right_of(b, k) == CastlingStatus::Available && between_empty(b, k) && king_path_safe(b, k)
}
pub open spec fn castle_ply(from: Square, to: Square, c: Color) -> Ply { Ply { is_castles: true, ..ply_new(from, to, Kind::King(c)) } }
pub open spec fn opt1(cond: bool, p: Ply) -> Seq<Ply> { if cond { seq![p] } else { Seq::<Ply>::empty() } }
pub open spec fn king_moves(b: Board, s: Square, c: Color) -> Seq<Ply> {
    step_moves(b, s, Kind::King(c))
    + (if s == sq(0, 4) && c == Color::White {
          opt1(can_castle(b, CastlingKind::WhiteKingside), castle_ply(s, sq(0, 6), c)) + opt1(can_castle(b, CastlingKind::WhiteQueenside), castle_ply(s, sq(0, 2), c))
       } else { Seq::<Ply>::empty() })
    + (if s == sq(7, 4) && c == Color::Black {
          opt1(can_castle(b, CastlingKind::BlackKingside), castle_ply(s, sq(7, 6), c)) + opt1(can_castle(b, CastlingKind::BlackQueenside), castle_ply(s, sq(7, 2), c))
       } else { Seq::<Ply>::empty() })
}
pub open spec fn delta_of(d: Direction) -> (int, int) {
    match d {
        Direction::North => (1, 0), Direction::NorthEast => (1, 1), Direction::East => (0, 1), Direction::SouthEast => (-1, 1),
        Direction::South => (-1, 0), Direction::SouthWest => (-1, -1), Direction::West => (0, -1), Direction::NorthWest => (1, -1),
    }
}
pub open spec fn wrap_u8(x: int) -> u8 { (((x % 256) + 256) % 256) as u8 }
pub open spec fn add_delta(s: Square, dr: int, df: int) -> Square {
    Square { rank: wrap_u8(s.rank as int + dr), file: wrap_u8(s.file as int + df) }
}
pub open spec fn fwd(c: Color) -> int { match c { Color::White => 1, Color::Black => -1 } }
pub open spec fn start_rank(c: Color) -> int { match c { Color::White => 1, Color::Black => 6 } }
pub open spec fn ep_rank(c: Color) -> int { match c { Color::White => 4, Color::Black => 3 } }
pub open spec fn last_rank(c: Color) -> int { match c { Color::White => 7, Color::Black => 0 } }
pub open spec fn empty_at(b: Board, r: int, f: int) -> bool { !bit(b.bitboards.all_pieces.0, r * 8 + f) }
pub open spec fn pawn_captures(b: Board, s: Square, c: Color) -> Seq<Ply> {
    sq_list(pawn_att(s, c) & enemy_bb(b, c), 64).map_values(|d: Square| ply_new(s, d, Kind::Pawn(c)))
}
pub open spec fn pawn_raw(b: Board, s: Square, c: Color) -> Seq<Ply> {
    let r = s.rank as int; let f = s.file as int; let d = fwd(c);
    let one_free = empty_at(b, r + d, f);
    pawn_captures(b, s, c)
    + opt1(one_free, ply_new(s, add_delta(s, d, 0), Kind::Pawn(c)))
    + opt1(r == start_rank(c) && one_free && empty_at(b, r + 2 * d, f),
           Ply { is_double_pawn_push: true, ..ply_new(s, add_delta(add_delta(s, d, 0), d, 0), Kind::Pawn(c)) })
    + opt1(r == ep_rank(c) && b.en_passant_file == Some(add_delta(add_delta(s, d, 0), 0, 1).file),
           Ply { en_passant: true, captured_piece: Some(Kind::Pawn(opp(c))), ..ply_new(s, add_delta(add_delta(s, d, 0), 0, 1), Kind::Pawn(c)) })
    + opt1(r == ep_rank(c) && b.en_passant_file == Some(add_delta(add_delta(s, d, 0), 0, -1).file),
           Ply { en_passant: true, captured_piece: Some(Kind::Pawn(opp(c))), ..ply_new(s, add_delta(add_delta(s, d, 0), 0, -1), Kind::Pawn(c)) })
}
pub open spec fn explode(p: Ply, c: Color) -> Seq<Ply> {
    if p.dest.rank == last_rank(c) {
        seq![Ply { promoted_to: Some(Kind::Queen(c)), ..ply_new(p.start, p.dest, p.piece) },
             Ply { promoted_to: Some(Kind::Rook(c)), ..ply_new(p.start, p.dest, p.piece) },
             Ply { promoted_to: Some(Kind::Knight(c)), ..ply_new(p.start, p.dest, p.piece) },
             Ply { promoted_to: Some(Kind::Bishop(c)), ..ply_new(p.start, p.dest, p.piece) }]
    } else { seq![p] }
}
pub open spec fn explode_all(l: Seq<Ply>, c: Color, n: int) -> Seq<Ply>
    decreases n,
{
    if n <= 0 { Seq::<Ply>::empty() } else { explode_all(l, c, n - 1) + explode(l[n - 1], c) }
}
pub open spec fn pawn_moves(b: Board, s: Square, c: Color) -> Seq<Ply> { explode_all(pawn_raw(b, s, c), c, pawn_raw(b, s, c).len() as int) }
