// (assumptions of the Verus side; see ledger.json)
// ---------------------------------------------------------------- ZKey model
/// the key of the real code is `struct ZKey(u64)`; the model carries, as ghost state, the set of
/// table slots currently XORed into it.  zk_wf ties the two: v is the XOR-fold of the table over comps.
pub struct ZKey { pub v: u64, pub comps: Ghost<KeySet> }
impl Clone for ZKey {
    fn clone(&self) -> (r: Self) ensures r == *self { ZKey { v: self.v, comps: self.comps } }
}
impl Copy for ZKey {}

pub uninterp spec fn zt_word(c: Comp) -> u64;
// zfold: prelude/zkey_spec.rs (included by the unit)
pub open spec fn zk_wf(k: ZKey) -> bool { k.v == zfold(k.comps@) }

impl ZKey {
    // LEDGER zk_toggle_piece: value part proved by Kani (self.0 ^= table word, indices in range);
    // wf preservation is lemma_zfold_flip of the ZKEY unit
    #[verifier::external_body]
    pub fn add_or_remove_piece(&mut self, piece: Kind, square: Square)
        requires sq_ok(square),
        ensures final(self).comps@ == flip_piece(old(self).comps@, piece, square),
                final(self).v == old(self).v ^ zt_word(Comp::Piece(piece, square)),
                zk_wf(*old(self)) ==> zk_wf(*final(self)),
    { unimplemented!() }

    #[verifier::external_body]
    pub fn change_castling_rights(&mut self, castling: CastlingKind)
        ensures final(self).comps@ == flip_right(old(self).comps@, castling),
                final(self).v == old(self).v ^ zt_word(Comp::Right(castling)),
                zk_wf(*old(self)) ==> zk_wf(*final(self)),
    { unimplemented!() }

    #[verifier::external_body]
    pub fn change_en_passant(&mut self, file: u8)
        requires file < 8,
        ensures final(self).comps@ == flip_ep(old(self).comps@, file),
                final(self).v == old(self).v ^ zt_word(Comp::Ep(file)),
                zk_wf(*old(self)) ==> zk_wf(*final(self)),
    { unimplemented!() }

    #[verifier::external_body]
    pub fn change_turn(&mut self)
        ensures final(self).comps@ == flip_turn(old(self).comps@),
                final(self).v == old(self).v ^ zt_word(Comp::WhiteTurn),
                zk_wf(*old(self)) ==> zk_wf(*final(self)),
    { unimplemented!() }
}

