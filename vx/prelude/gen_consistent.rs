// =====================================================================================
// [C01 -> C02/C03/C04] every move produced by get_all_moves satisfies make_move's precondition consistent(board, move).
// Spec-level proof over the generator specifications (prelude/moves_spec.rs) and the board invariants gen_wf.
// =====================================================================================

/// the side that has just moved did not leave its own king attacked (every position reached by a legal move)
pub open spec fn nocheck_inv(b: Board) -> bool { !in_check_bb(b, opp(b.current_turn)) }
pub open spec fn gen_wf(b: Board) -> bool {
    pb_wf(b.bitboards) && b.history@.len() >= 1 && pawns_ok(b) && ep_inv(b) && home_inv(b) && nocheck_inv(b)
}

/// a square attacked by a piece of the side to move does not hold the enemy king (else that king would be in check with
/// the other side to move)
pub proof fn lemma_no_king_capture(b: Board, s: Square, k: Kind, d: Square)
    requires gen_wf(b), sq_ok(s), sq_ok(d), pl(b)(s) == Some(k), color_of(k) == b.current_turn,
             bit(att(k, s, b.bitboards.all_pieces.0), sq_idx(d)),
    ensures pl(b)(d) != Some(Kind::King(opp(b.current_turn))),
{
    broadcast use lemma_bit_and, lemma_bit_zero;
    let c = opp(b.current_turn);
    if pl(b)(d) == Some(Kind::King(c)) {
        let j = sq_idx(s); let t = sq_idx(d);
        lemma_sq_of_idx(s); lemma_sq_of_idx(d);
        lemma_occupancy(b.bitboards, j);
        lemma_attacked_pointwise(b, c, 64, t);
        assert(bit(enemy_bb(b, c), j));
        assert(at(b.bitboards)(sq_of(j)).is_some());
        assert(bit(attacked(b, c), t));
        // the king's own bit: at(d) == King(c) means bit t of the king board (first matching board in `at`, boards disjoint)
        lemma_king_bit(b.bitboards, d, c);
        assert(bit(king_bb(b, c), t));
        assert(bit(king_bb(b, c) & attacked(b, c), t));
        assert(false);
    }
}
pub proof fn lemma_king_bit(pb: PieceBitboards, d: Square, c: Color)
    requires pb_wf(pb), sq_ok(d), at(pb)(d) == Some(Kind::King(c)),
    ensures bit(match c { Color::White => pb.white_king.0, Color::Black => pb.black_king.0 }, sq_idx(d)),
{}

// ---- occupancy words vs. placement
pub proof fn lemma_occupancy(pb: PieceBitboards, i: int)
    requires pb_wf(pb), 0 <= i < 64,
    ensures
        bit(pb.all_pieces.0, i) == at(pb)(sq_of(i)).is_some(),
        bit(pb.white_pieces.0, i) == (at(pb)(sq_of(i)) matches Some(k) && color_of(k) == Color::White),
        bit(pb.black_pieces.0, i) == (at(pb)(sq_of(i)) matches Some(k) && color_of(k) == Color::Black),
{
    broadcast use lemma_bit_or, lemma_bit_and, lemma_bit_zero;
    assert(sq_idx(sq_of(i)) == i && sq_ok(sq_of(i)));
    // white and black are disjoint words
    assert(bit(pb.white_pieces.0 & pb.black_pieces.0, i) == (bit(pb.white_pieces.0, i) && bit(pb.black_pieces.0, i)));
}
pub proof fn lemma_sq_of_idx(s: Square)
    requires sq_ok(s),
    ensures sq_of(sq_idx(s)) == s, 0 <= sq_idx(s) < 64,
{}

// ---- structure of the lists
pub proof fn lemma_keep_elem(l: Seq<Ply>, n: int, pred: spec_fn(Ply) -> bool, t: int)
    requires 0 <= n <= l.len(), 0 <= t < keep(l, n, pred).len(),
    ensures exists|u: int| 0 <= u < n && #[trigger] l[u] == keep(l, n, pred)[t] && pred(l[u]),
    decreases n,
{
    if n > 0 {
        if pred(l[n - 1]) {
            if t < keep(l, n - 1, pred).len() {
                lemma_keep_elem(l, n - 1, pred, t);
                let u = choose|u: int| 0 <= u < n - 1 && #[trigger] l[u] == keep(l, n - 1, pred)[t] && pred(l[u]);
                assert(l[u] == keep(l, n, pred)[t]);
            } else {
                assert(l[n - 1] == keep(l, n, pred)[t]);
            }
        } else {
            lemma_keep_elem(l, n - 1, pred, t);
            let u = choose|u: int| 0 <= u < n - 1 && #[trigger] l[u] == keep(l, n - 1, pred)[t] && pred(l[u]);
            assert(l[u] == keep(l, n, pred)[t]);
        }
    }
}
pub proof fn lemma_explode_all_elem(l: Seq<Ply>, c: Color, n: int, t: int)
    requires 0 <= n <= l.len(), 0 <= t < explode_all(l, c, n).len(),
    ensures exists|u: int, v: int| 0 <= u < n && 0 <= v < explode(l[u], c).len() && #[trigger] explode(l[u], c)[v] == explode_all(l, c, n)[t],
    decreases n,
{
    if n > 0 {
        let a = explode_all(l, c, n - 1);
        if t < a.len() {
            lemma_explode_all_elem(l, c, n - 1, t);
            let (u, v) = choose|u: int, v: int| 0 <= u < n - 1 && 0 <= v < explode(l[u], c).len() && #[trigger] explode(l[u], c)[v] == a[t];
            assert(explode(l[u], c)[v] == explode_all(l, c, n)[t]);
        } else {
            let v = t - a.len();
            assert(explode(l[n - 1], c)[v] == explode_all(l, c, n)[t]);
        }
    }
}

// ---- per kind of move
/// a non-pawn, non-castling move to a square of the piece's attack set that is not occupied by its own side
pub proof fn lemma_step_consistent(b: Board, s: Square, k: Kind, t: int)
    requires gen_wf(b), sq_ok(s), pl(b)(s) == Some(k), color_of(k) == b.current_turn, !is_pawn_kind(k),
             0 <= t < step_moves(b, s, k).len(), on_board_move(step_moves(b, s, k)[t]),
    ensures consistent(b, fill(b, step_moves(b, s, k)[t])),
{
    broadcast use lemma_bit_and, lemma_bit_not;
    let x = att(k, s, b.bitboards.all_pieces.0) & !own_bb(b, color_of(k));
    lemma_sq_list_members(x, 64);
    let d = sq_list(x, 64)[t];
    assert(step_moves(b, s, k)[t] == ply_new(s, d, k));
    // the destination is attacked by the piece and not occupied by its own side; it cannot hold a king
    let i = sq_idx(d);
    lemma_sq_of_idx(d);
    assert(bit(x, i));
    assert(bit(att(k, s, b.bitboards.all_pieces.0), i) && !bit(own_bb(b, color_of(k)), i));
    lemma_occupancy(b.bitboards, i);
    lemma_no_king_capture(b, s, k, d);
}
pub proof fn lemma_capture_consistent(b: Board, s: Square, c: Color, t: int)
    requires gen_wf(b), sq_ok(s), pl(b)(s) == Some(Kind::Pawn(c)), c == b.current_turn,
             0 <= t < pawn_captures(b, s, c).len(), on_board_move(pawn_captures(b, s, c)[t]),
    ensures consistent_core(b, fill(b, pawn_captures(b, s, c)[t])),
{
    broadcast use lemma_bit_and;
    let x = pawn_att(s, c) & enemy_bb(b, c);
    lemma_sq_list_members(x, 64);
    let d = sq_list(x, 64)[t];
    assert(pawn_captures(b, s, c)[t] == ply_new(s, d, Kind::Pawn(c)));
    let i = sq_idx(d);
    lemma_sq_of_idx(d);
    assert(bit(x, i));
    assert(bit(pawn_att(s, c), i) && bit(enemy_bb(b, c), i));
    lemma_occupancy(b.bitboards, i);
    lemma_no_king_capture(b, s, Kind::Pawn(c), d);
}
pub proof fn lemma_empty_at(b: Board, r: int, f: int)
    requires pb_wf(b.bitboards), 0 <= r < 8, 0 <= f < 8,
    ensures empty_at(b, r, f) == pl(b)(sq(r, f)).is_none(),
{
    lemma_occupancy(b.bitboards, r * 8 + f);
    assert(sq_of(r * 8 + f) == sq(r, f));
}
/// one step with wrapping u8 arithmetic, spelled out for the deltas the pawn code uses
pub proof fn lemma_add_delta(s: Square, dr: int, df: int)
    requires sq_ok(s), -2 <= dr <= 2, -1 <= df <= 1,
    ensures
        add_delta(s, dr, df).rank == (if s.rank as int + dr < 0 { s.rank as int + dr + 256 } else { s.rank as int + dr }),
        add_delta(s, dr, df).file == (if s.file as int + df < 0 { 255int } else { s.file as int + df }),
{}

pub open spec fn raw_facts(b: Board, s: Square, c: Color, q: Ply) -> bool {
    &&& consistent_core(b, fill(b, q))
    &&& q.promoted_to.is_none() && !q.is_castles && q.piece == Kind::Pawn(c) && q.start == s
    &&& (q.dest.rank == last_rank(c) ==> !q.en_passant && !q.is_double_pawn_push)
}
pub proof fn lemma_pawn_push_facts(b: Board, s: Square, c: Color)
    requires gen_wf(b), sq_ok(s), pl(b)(s) == Some(Kind::Pawn(c)), c == b.current_turn, s.rank != last_rank(c),
    ensures ({
        let r = s.rank as int; let f = s.file as int; let d = fwd(c);
        let p1 = ply_new(s, add_delta(s, d, 0), Kind::Pawn(c));
        let p2 = Ply { is_double_pawn_push: true, ..ply_new(s, add_delta(add_delta(s, d, 0), d, 0), Kind::Pawn(c)) };
        &&& (empty_at(b, r + d, f) ==> raw_facts(b, s, c, p1))
        &&& (r == start_rank(c) && empty_at(b, r + d, f) && empty_at(b, r + 2 * d, f) ==> raw_facts(b, s, c, p2))
    }),
{
    let r = s.rank as int; let f = s.file as int; let d = fwd(c);
    lemma_add_delta(s, d, 0);
    let s1 = add_delta(s, d, 0);
    assert(s1 == sq(r + d, f));
    lemma_empty_at(b, r + d, f);
    if r == start_rank(c) {
        lemma_add_delta(s1, d, 0);
        assert(add_delta(s1, d, 0) == sq(r + 2 * d, f));
        lemma_empty_at(b, r + 2 * d, f);
    }
}
pub proof fn lemma_pawn_ep_facts(b: Board, s: Square, c: Color, df: int)
    requires gen_wf(b), sq_ok(s), pl(b)(s) == Some(Kind::Pawn(c)), c == b.current_turn, s.rank != last_rank(c), df == 1 || df == -1,
    ensures ({
        let r = s.rank as int; let d = fwd(c);
        let dest = add_delta(add_delta(s, d, 0), 0, df);
        let p = Ply { en_passant: true, captured_piece: Some(Kind::Pawn(opp(c))), ..ply_new(s, dest, Kind::Pawn(c)) };
        r == ep_rank(c) && b.en_passant_file == Some(dest.file) && on_board_move(p) ==> raw_facts(b, s, c, p)
    }),
{
    let r = s.rank as int; let f = s.file as int; let d = fwd(c);
    lemma_add_delta(s, d, 0);
    let s1 = add_delta(s, d, 0);
    assert(s1 == sq(r + d, f));
    lemma_add_delta(s1, 0, df);
    let dest = add_delta(s1, 0, df);
    if r == ep_rank(c) && b.en_passant_file == Some(dest.file) && dest.file < 8 {
        assert(dest == sq(r + d, f + df));
        assert(sq(ep_rank(c), f + df) == (Square { rank: s.rank, file: dest.file }));
    }
}
/// one element of pawn_raw (before promotion explosion)
pub proof fn lemma_pawn_raw_consistent(b: Board, s: Square, c: Color, u: int)
    requires gen_wf(b), sq_ok(s), pl(b)(s) == Some(Kind::Pawn(c)), c == b.current_turn,
             0 <= u < pawn_raw(b, s, c).len(), on_board_move(pawn_raw(b, s, c)[u]),
    ensures raw_facts(b, s, c, pawn_raw(b, s, c)[u]),
{
    let r = s.rank as int; let f = s.file as int; let d = fwd(c);
    let caps = pawn_captures(b, s, c);
    let one_free = empty_at(b, r + d, f);
    let p1 = ply_new(s, add_delta(s, d, 0), Kind::Pawn(c));
    let c2 = r == start_rank(c) && one_free && empty_at(b, r + 2 * d, f);
    let p2 = Ply { is_double_pawn_push: true, ..ply_new(s, add_delta(add_delta(s, d, 0), d, 0), Kind::Pawn(c)) };
    let c3 = r == ep_rank(c) && b.en_passant_file == Some(add_delta(add_delta(s, d, 0), 0, 1).file);
    let p3 = Ply { en_passant: true, captured_piece: Some(Kind::Pawn(opp(c))), ..ply_new(s, add_delta(add_delta(s, d, 0), 0, 1), Kind::Pawn(c)) };
    let c4 = r == ep_rank(c) && b.en_passant_file == Some(add_delta(add_delta(s, d, 0), 0, -1).file);
    let p4 = Ply { en_passant: true, captured_piece: Some(Kind::Pawn(opp(c))), ..ply_new(s, add_delta(add_delta(s, d, 0), 0, -1), Kind::Pawn(c)) };
    let l1 = caps + opt1(one_free, p1);
    let l2 = l1 + opt1(c2, p2);
    let l3 = l2 + opt1(c3, p3);
    let raw = pawn_raw(b, s, c);
    assert(raw == l3 + opt1(c4, p4));
    let q = raw[u];
    assert(r != last_rank(c));
    lemma_pawn_push_facts(b, s, c);
    lemma_pawn_ep_facts(b, s, c, 1);
    lemma_pawn_ep_facts(b, s, c, -1);
    if u < caps.len() {
        assert(q == caps[u]);
        lemma_capture_consistent(b, s, c, u);
        let x = pawn_att(s, c) & enemy_bb(b, c);
        assert(caps[u] == ply_new(s, sq_list(x, 64)[u], Kind::Pawn(c)));
    } else if u < l1.len() {
        assert(q == p1);
    } else if u < l2.len() {
        assert(q == p2);
    } else if u < l3.len() {
        assert(q == p3);
    } else {
        assert(q == p4);
    }
}
pub proof fn lemma_pawn_consistent(b: Board, s: Square, c: Color, t: int)
    requires gen_wf(b), sq_ok(s), pl(b)(s) == Some(Kind::Pawn(c)), c == b.current_turn,
             0 <= t < pawn_moves(b, s, c).len(), on_board_move(pawn_moves(b, s, c)[t]),
    ensures consistent(b, fill(b, pawn_moves(b, s, c)[t])),
{
    let raw = pawn_raw(b, s, c);
    lemma_explode_all_elem(raw, c, raw.len() as int, t);
    let (u, v) = choose|u: int, v: int| 0 <= u < raw.len() && 0 <= v < explode(raw[u], c).len() && #[trigger] explode(raw[u], c)[v] == pawn_moves(b, s, c)[t];
    let q = raw[u];
    let e = explode(q, c)[v];
    assert(e.start == q.start && e.dest == q.dest);
    assert(on_board_move(q));
    lemma_pawn_raw_consistent(b, s, c, u);
    if q.dest.rank == last_rank(c) {
        // a plain move or capture with a promotion piece: fill() reads the same squares as for q
        assert(e.piece == q.piece && !e.en_passant && !e.is_castles && !e.is_double_pawn_push);
    } else {
        assert(e == q);
    }
}
pub proof fn lemma_king_consistent(b: Board, s: Square, c: Color, t: int)
    requires gen_wf(b), sq_ok(s), pl(b)(s) == Some(Kind::King(c)), c == b.current_turn,
             0 <= t < king_moves(b, s, c).len(), on_board_move(king_moves(b, s, c)[t]),
    ensures consistent(b, fill(b, king_moves(b, s, c)[t])),
{
    let st = step_moves(b, s, Kind::King(c));
    let w = if s == sq(0, 4) && c == Color::White {
        opt1(can_castle(b, CastlingKind::WhiteKingside), castle_ply(s, sq(0, 6), c)) + opt1(can_castle(b, CastlingKind::WhiteQueenside), castle_ply(s, sq(0, 2), c))
    } else { Seq::<Ply>::empty() };
    let bl = if s == sq(7, 4) && c == Color::Black {
        opt1(can_castle(b, CastlingKind::BlackKingside), castle_ply(s, sq(7, 6), c)) + opt1(can_castle(b, CastlingKind::BlackQueenside), castle_ply(s, sq(7, 2), c))
    } else { Seq::<Ply>::empty() };
    assert(king_moves(b, s, c) == st + w + bl);
    let q = king_moves(b, s, c)[t];
    if t < st.len() {
        assert(q == st[t]);
        lemma_step_consistent(b, s, Kind::King(c), t);
    } else {
        // a castling move: rights => home squares; between_empty => destination and rook target empty
        lemma_empty_at(b, 0, 5); lemma_empty_at(b, 0, 6); lemma_empty_at(b, 0, 1); lemma_empty_at(b, 0, 2); lemma_empty_at(b, 0, 3);
        lemma_empty_at(b, 7, 5); lemma_empty_at(b, 7, 6); lemma_empty_at(b, 7, 1); lemma_empty_at(b, 7, 2); lemma_empty_at(b, 7, 3);
        assert(q.is_castles);
    }
}

/// every element of all_upto comes from one own piece's move list
pub proof fn lemma_all_upto_elem(b: Board, n: int, i: int)
    requires 0 <= n <= 64, 0 <= i < all_upto(b, n).len(),
    ensures exists|j: int, t: int| 0 <= j < n && 0 <= t < piece_moves(b, sq_of(j), pl(b)(sq_of(j)).unwrap()).len()
        && pl(b)(sq_of(j)).is_some() && color_of(pl(b)(sq_of(j)).unwrap()) == b.current_turn
        && #[trigger] fill(b, piece_moves(b, sq_of(j), pl(b)(sq_of(j)).unwrap())[t]) == all_upto(b, n)[i],
    decreases n,
{
    if n > 0 {
        let s = sq_of(n - 1);
        let prev = all_upto(b, n - 1);
        if i < prev.len() {
            lemma_all_upto_elem(b, n - 1, i);
            let (j, t) = choose|j: int, t: int| 0 <= j < n - 1 && 0 <= t < piece_moves(b, sq_of(j), pl(b)(sq_of(j)).unwrap()).len()
                && pl(b)(sq_of(j)).is_some() && color_of(pl(b)(sq_of(j)).unwrap()) == b.current_turn
                && #[trigger] fill(b, piece_moves(b, sq_of(j), pl(b)(sq_of(j)).unwrap())[t]) == prev[i];
            assert(fill(b, piece_moves(b, sq_of(j), pl(b)(sq_of(j)).unwrap())[t]) == all_upto(b, n)[i]);
        } else {
            let k = pl(b)(s).unwrap();
            let t = i - prev.len();
            assert(fill(b, piece_moves(b, s, k)[t]) == all_upto(b, n)[i]);
        }
    }
}

/// [C01 -> C03] the theorem: everything get_all_moves returns may be passed to make_move
pub broadcast proof fn lemma_all_moves_consistent(b: Board, i: int)
    requires gen_wf(b), 0 <= i < all_moves(b).len(),
    ensures consistent(b, #[trigger] all_moves(b)[i]),
{
    lemma_all_upto_elem(b, 64, i);
    let (j, t) = choose|j: int, t: int| 0 <= j < 64 && 0 <= t < piece_moves(b, sq_of(j), pl(b)(sq_of(j)).unwrap()).len()
        && pl(b)(sq_of(j)).is_some() && color_of(pl(b)(sq_of(j)).unwrap()) == b.current_turn
        && #[trigger] fill(b, piece_moves(b, sq_of(j), pl(b)(sq_of(j)).unwrap())[t]) == all_moves(b)[i];
    let s = sq_of(j);
    let k = pl(b)(s).unwrap();
    assert(sq_ok(s));
    let km = kind_moves(b, s, k);
    lemma_keep_elem(km, km.len() as int, |p: Ply| on_board_move(p), t);
    let u = choose|u: int| 0 <= u < km.len() && #[trigger] km[u] == piece_moves(b, s, k)[t] && on_board_move(km[u]);
    match k {
        Kind::Pawn(c) => { lemma_pawn_consistent(b, s, c, u); },
        Kind::King(c) => { lemma_king_consistent(b, s, c, u); },
        _ => { lemma_step_consistent(b, s, k, u); },
    }
}
