// =====================================================================================
// Abstract leaves of the BOARD units.  Everything in this file marked external_body /
// assume_specification / axiom is an ASSUMPTION of the Verus side; the ledger (ledger.json)
// says which Kani harness or which other Verus unit proves it on the real code.
// =====================================================================================

// ---------------------------------------------------------------- bits of a u64
pub open spec fn bit(x: u64, i: int) -> bool { (x >> (i as u64)) & 1u64 == 1u64 }

// ---------------------------------------------------------------- PieceBitboards view
/// piece standing on a square, read from the twelve piece boards in the order get_piece_kind uses
pub open spec fn at(pb: PieceBitboards) -> Placement {
    |s: Square| {
        let i = sq_idx(s);
        if !sq_ok(s) { None }
        else if bit(pb.white_pawns.0, i) { Some(Kind::Pawn(Color::White)) }
        else if bit(pb.white_king.0, i) { Some(Kind::King(Color::White)) }
        else if bit(pb.white_queens.0, i) { Some(Kind::Queen(Color::White)) }
        else if bit(pb.white_rooks.0, i) { Some(Kind::Rook(Color::White)) }
        else if bit(pb.white_knights.0, i) { Some(Kind::Knight(Color::White)) }
        else if bit(pb.white_bishops.0, i) { Some(Kind::Bishop(Color::White)) }
        else if bit(pb.black_pawns.0, i) { Some(Kind::Pawn(Color::Black)) }
        else if bit(pb.black_king.0, i) { Some(Kind::King(Color::Black)) }
        else if bit(pb.black_queens.0, i) { Some(Kind::Queen(Color::Black)) }
        else if bit(pb.black_rooks.0, i) { Some(Kind::Rook(Color::Black)) }
        else if bit(pb.black_knights.0, i) { Some(Kind::Knight(Color::Black)) }
        else if bit(pb.black_bishops.0, i) { Some(Kind::Bishop(Color::Black)) }
        else { None }
    }
}

pub open spec fn disj(a: Bitboard, b: Bitboard) -> bool { a.0 & b.0 == 0 }

/// PieceBitboards representation invariant, word level (the same text is assumed/asserted by the Kani ledger rows)
pub open spec fn pb_wf(pb: PieceBitboards) -> bool {
    &&& pb.white_pieces.0 == pb.white_pawns.0 | pb.white_knights.0 | pb.white_bishops.0 | pb.white_rooks.0 | pb.white_queens.0 | pb.white_king.0
    &&& pb.black_pieces.0 == pb.black_pawns.0 | pb.black_knights.0 | pb.black_bishops.0 | pb.black_rooks.0 | pb.black_queens.0 | pb.black_king.0
    &&& pb.all_pieces.0 == pb.white_pieces.0 | pb.black_pieces.0
    &&& disj(pb.white_pieces, pb.black_pieces)
    &&& disj(pb.white_pawns, pb.white_king) && disj(pb.white_pawns, pb.white_queens) && disj(pb.white_pawns, pb.white_rooks)
        && disj(pb.white_pawns, pb.white_knights) && disj(pb.white_pawns, pb.white_bishops)
    &&& disj(pb.white_king, pb.white_queens) && disj(pb.white_king, pb.white_rooks) && disj(pb.white_king, pb.white_knights)
        && disj(pb.white_king, pb.white_bishops)
    &&& disj(pb.white_queens, pb.white_rooks) && disj(pb.white_queens, pb.white_knights) && disj(pb.white_queens, pb.white_bishops)
    &&& disj(pb.white_rooks, pb.white_knights) && disj(pb.white_rooks, pb.white_bishops)
    &&& disj(pb.white_knights, pb.white_bishops)
    &&& disj(pb.black_pawns, pb.black_king) && disj(pb.black_pawns, pb.black_queens) && disj(pb.black_pawns, pb.black_rooks)
        && disj(pb.black_pawns, pb.black_knights) && disj(pb.black_pawns, pb.black_bishops)
    &&& disj(pb.black_king, pb.black_queens) && disj(pb.black_king, pb.black_rooks) && disj(pb.black_king, pb.black_knights)
        && disj(pb.black_king, pb.black_bishops)
    &&& disj(pb.black_queens, pb.black_rooks) && disj(pb.black_queens, pb.black_knights) && disj(pb.black_queens, pb.black_bishops)
    &&& disj(pb.black_rooks, pb.black_knights) && disj(pb.black_rooks, pb.black_bishops)
    &&& disj(pb.black_knights, pb.black_bishops)
}

impl PieceBitboards {
    // LEDGER pb_add_piece: proved by Kani harness kx::pb::add_piece on the real PieceBitboards::add_piece
    #[verifier::external_body]
    pub fn add_piece(&mut self, square: Square, kind: Kind)
        requires sq_ok(square), pb_wf(*old(self)), at(*old(self))(square).is_none(),
        ensures pb_wf(*final(self)), at(*final(self)) == upd(at(*old(self)), square, Some(kind)),
    { unimplemented!() }

    // LEDGER pb_remove_piece: proved by Kani harness kx::pb::remove_piece on the real PieceBitboards::remove_piece
    #[verifier::external_body]
    pub fn remove_piece(&mut self, square: Square, kind: Kind)
        requires sq_ok(square), pb_wf(*old(self)), at(*old(self))(square) == Some(kind),
        ensures pb_wf(*final(self)), at(*final(self)) == upd(at(*old(self)), square, None),
    { unimplemented!() }

    // LEDGER pb_get_piece_kind: proved by Kani harness kx::pb::get_piece_kind
    #[verifier::external_body]
    pub fn get_piece_kind(&self, square: Square) -> (r: Option<Kind>)
        requires sq_ok(square), pb_wf(*self),
        ensures r == at(*self)(square),
    { unimplemented!() }
}

// ---------------------------------------------------------------- ZKey model
/// the key of the real code is `struct ZKey(u64)`; the model carries, as ghost state, the set of
/// table slots currently XORed into it.  zk_wf ties the two: v is the XOR-fold of the table over comps.
pub struct ZKey { pub v: u64, pub comps: Ghost<KeySet> }
impl Clone for ZKey {
    fn clone(&self) -> (r: Self) ensures r == *self { ZKey { v: self.v, comps: self.comps } }
}
impl Copy for ZKey {}

pub uninterp spec fn zt_word(c: Comp) -> u64;
// zfold: prelude/zkey_spec.rs (included by the unit)
pub open spec fn zk_wf(k: ZKey) -> bool { k.v == zfold(k.comps@) }

impl ZKey {
    // LEDGER zk_toggle_piece: value part proved by Kani (self.0 ^= table word, indices in range);
    // wf preservation is lemma_zfold_flip of the ZKEY unit
    #[verifier::external_body]
    pub fn add_or_remove_piece(&mut self, piece: Kind, square: Square)
        requires sq_ok(square),
        ensures final(self).comps@ == flip_piece(old(self).comps@, piece, square),
                final(self).v == old(self).v ^ zt_word(Comp::Piece(piece, square)),
                zk_wf(*old(self)) ==> zk_wf(*final(self)),
    { unimplemented!() }

    #[verifier::external_body]
    pub fn change_castling_rights(&mut self, castling: CastlingKind)
        ensures final(self).comps@ == flip_right(old(self).comps@, castling),
                final(self).v == old(self).v ^ zt_word(Comp::Right(castling)),
                zk_wf(*old(self)) ==> zk_wf(*final(self)),
    { unimplemented!() }

    #[verifier::external_body]
    pub fn change_en_passant(&mut self, file: u8)
        requires file < 8,
        ensures final(self).comps@ == flip_ep(old(self).comps@, file),
                final(self).v == old(self).v ^ zt_word(Comp::Ep(file)),
                zk_wf(*old(self)) ==> zk_wf(*final(self)),
    { unimplemented!() }

    #[verifier::external_body]
    pub fn change_turn(&mut self)
        ensures final(self).comps@ == flip_turn(old(self).comps@),
                final(self).v == old(self).v ^ zt_word(Comp::WhiteTurn),
                zk_wf(*old(self)) ==> zk_wf(*final(self)),
    { unimplemented!() }
}

// ---------------------------------------------------------------- Square::from("e1") literals
pub uninterp spec fn str_sq(s: Seq<char>) -> Square;
impl From<&str> for Square {
    #[verifier::external_body]
    fn from(algebraic_notation: &str) -> (r: Self)
        ensures r == str_sq(algebraic_notation@),
    { unimplemented!() }
}
// LEDGER sq_literals: the real `impl From<&str> for Square` evaluated natively on these literals
pub broadcast axiom fn axiom_str_sq_a1() ensures #[trigger] str_sq("a1"@) == sq(0, 0);
pub broadcast axiom fn axiom_str_sq_c1() ensures #[trigger] str_sq("c1"@) == sq(0, 2);
pub broadcast axiom fn axiom_str_sq_d1() ensures #[trigger] str_sq("d1"@) == sq(0, 3);
pub broadcast axiom fn axiom_str_sq_e1() ensures #[trigger] str_sq("e1"@) == sq(0, 4);
pub broadcast axiom fn axiom_str_sq_f1() ensures #[trigger] str_sq("f1"@) == sq(0, 5);
pub broadcast axiom fn axiom_str_sq_g1() ensures #[trigger] str_sq("g1"@) == sq(0, 6);
pub broadcast axiom fn axiom_str_sq_h1() ensures #[trigger] str_sq("h1"@) == sq(0, 7);
pub broadcast axiom fn axiom_str_sq_a8() ensures #[trigger] str_sq("a8"@) == sq(7, 0);
pub broadcast axiom fn axiom_str_sq_c8() ensures #[trigger] str_sq("c8"@) == sq(7, 2);
pub broadcast axiom fn axiom_str_sq_d8() ensures #[trigger] str_sq("d8"@) == sq(7, 3);
pub broadcast axiom fn axiom_str_sq_e8() ensures #[trigger] str_sq("e8"@) == sq(7, 4);
pub broadcast axiom fn axiom_str_sq_f8() ensures #[trigger] str_sq("f8"@) == sq(7, 5);
pub broadcast axiom fn axiom_str_sq_g8() ensures #[trigger] str_sq("g8"@) == sq(7, 6);
pub broadcast axiom fn axiom_str_sq_h8() ensures #[trigger] str_sq("h8"@) == sq(7, 7);
pub broadcast group group_str_sq {
    axiom_str_sq_a1, axiom_str_sq_c1, axiom_str_sq_d1, axiom_str_sq_e1, axiom_str_sq_f1, axiom_str_sq_g1, axiom_str_sq_h1,
    axiom_str_sq_a8, axiom_str_sq_c8, axiom_str_sq_d8, axiom_str_sq_e8, axiom_str_sq_f8, axiom_str_sq_g8, axiom_str_sq_h8,
}

// ---------------------------------------------------------------- std
pub open spec fn ply_default() -> Ply {
    Ply {
        start: sq(0, 0), dest: sq(0, 0), piece: Kind::Pawn(Color::White), captured_piece: None, promoted_to: None,
        is_castles: false, en_passant: false, is_double_pawn_push: false, halfmove_clock: 0,
        castling_rights: CastlingRights {
            white_kingside: CastlingStatus::Available, white_queenside: CastlingStatus::Available,
            black_kingside: CastlingStatus::Available, black_queenside: CastlingStatus::Available },
    }
}
