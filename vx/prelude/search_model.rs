// =====================================================================================
// Abstractions used by the SEARCH units.
//
// Board: the search sees the board only through the contracts below, which restate (in terms of an abstract
// game state `pos`) what the BOARD / MOVEGEN units prove about the real functions:
//   make_move      pos' == step(pos, m)                       (C03, board unit)
//   unmake_move    pos' == prev(pos), prev(step(q, m)) == q   (C02, board unit: lemma_make_unmake_roundtrip)
//   is_legal_move  pos unchanged, Ok <=> legal                (C02/C01, board unit)
//   get_all_moves  every returned move is pseudo-legal here   (C01, movegen units)
// =====================================================================================
pub type Score = i16;

pub struct GPos { pub dummy: int }     // abstract game state (placement, turn, rights, ep, clocks, history of keys)
pub uninterp spec fn step(p: GPos, m: Ply) -> GPos;
pub uninterp spec fn has_prev(p: GPos) -> bool;
pub uninterp spec fn prev(p: GPos) -> GPos;
pub uninterp spec fn pseudo(p: GPos, m: Ply) -> bool;   // m is a consistent (pseudo-legal) move in p
pub uninterp spec fn legal(p: GPos, m: Ply) -> bool;
pub uninterp spec fn has_legal(p: GPos) -> bool;      // some move is legal in p
pub uninterp spec fn turn_of(p: GPos) -> Color;
pub uninterp spec fn key_of(p: GPos) -> ZKey;
pub uninterp spec fn in_check_pos(p: GPos, c: Color) -> bool;
// [C11] what the look-ahead game of prelude/minimax_spec.rs is built from
pub uninterp spec fn moves_of(p: GPos) -> Seq<Ply>;     // what get_all_moves returns (legal unit: all_moves)
pub uninterp spec fn caps_of(p: GPos) -> Seq<Ply>;      // get_filtered_moves(Ply::is_capture): its capture sub-list
pub uninterp spec fn eval_of(p: GPos) -> int;           // SimpleEvaluator::evaluate (eval unit)
pub uninterp spec fn halfmove_of(p: GPos) -> int;       // Board::get_halfmove_clock
pub uninterp spec fn repeated(p: GPos) -> bool;         // Board::position_reached(own key)

// range assumption: the u16 move clocks stay below 65535 along every line the search explores (make_move's range_ok)

pub broadcast axiom fn axiom_prev_step(p: GPos, m: Ply)
    ensures has_prev(#[trigger] step(p, m)), prev(step(p, m)) == p;

#[derive(Clone, Copy, PartialEq, Eq)]
#[derive(Structural)]
pub struct ZKey { pub v: u64 }

pub struct Board {
    pub current_turn: Color,
    pub zkey: ZKey,
    pub pos: Ghost<GPos>,
}
pub open spec fn bwf(b: Board) -> bool { b.current_turn == turn_of(b.pos@) && b.zkey == key_of(b.pos@) }

impl Clone for Board {
    #[verifier::external_body]
    fn clone(&self) -> (r: Self) ensures r == *self { unimplemented!() }
}

impl Board {
    /// fen unit: Board::from_fen (turn and key agree with the loaded position)
    #[verifier::external_body]
    pub fn from_fen(fen: &str) -> (r: Board) ensures bwf(r) { unimplemented!() }

    #[verifier::external_body]
    pub fn get_all_moves(&self) -> (r: Vec<Ply>)
        requires bwf(*self),
        ensures forall|i: int| 0 <= i < r@.len() ==> pseudo(self.pos@, #[trigger] r@[i]),
                r@.len() <= 17408, // legal unit: lemma_all_moves_len
                r@ == moves_of(self.pos@),   // [C11] the generated list is a function of the position (legal unit: all_moves)
    { unimplemented!() }

    /// quiescence's move list: the pseudo-legal captures
    #[verifier::external_body]
    pub fn get_capture_moves(&self) -> (r: Vec<Ply>)
        requires bwf(*self),
        ensures forall|i: int| 0 <= i < r@.len() ==> pseudo(self.pos@, #[trigger] r@[i]),
                r@.len() <= 17408,
                r@ == caps_of(self.pos@),    // [C11] likewise its capture sub-list
    { unimplemented!() }

    /// C01/C02: the legal moves; asking does not change the board
    #[verifier::external_body]
    pub fn get_legal_moves(&mut self) -> (r: Vec<Ply>)
        requires bwf(*old(self)),
        ensures *final(self) == *old(self),
                forall|i: int| 0 <= i < r@.len() ==> pseudo(old(self).pos@, #[trigger] r@[i]) && legal(old(self).pos@, r@[i]),
                r@.len() == 0 ==> !has_legal(old(self).pos@),
    { unimplemented!() }

    #[verifier::external_body]
    pub fn is_legal_move(&mut self, ply: Ply) -> (r: Result<Ply, &'static str>)
        requires bwf(*old(self)), pseudo(old(self).pos@, ply),
        ensures *final(self) == *old(self), r.is_ok() == legal(old(self).pos@, ply), r matches Ok(p) ==> p == ply,
    { unimplemented!() }

    #[verifier::external_body]
    pub fn make_move(&mut self, new_move: Ply)
        requires bwf(*old(self)), pseudo(old(self).pos@, new_move),
        ensures bwf(*final(self)), final(self).pos@ == step(old(self).pos@, new_move),
    { unimplemented!() }

    #[verifier::external_body]
    pub fn unmake_move(&mut self)
        requires bwf(*old(self)), has_prev(old(self).pos@),
        ensures bwf(*final(self)), final(self).pos@ == prev(old(self).pos@),
    { unimplemented!() }

    #[verifier::external_body]
    pub fn get_halfmove_clock(&self) -> (r: u16) requires bwf(*self), ensures r as int == halfmove_of(self.pos@), { unimplemented!() }

    #[verifier::external_body]
    pub fn position_reached(&self, position: ZKey) -> (r: bool) requires bwf(*self), ensures position == self.zkey ==> r == repeated(self.pos@), { unimplemented!() }

    #[verifier::external_body]
    pub fn is_in_check(&self, color: Color) -> (r: bool)
        requires bwf(*self),
        ensures r == in_check_pos(self.pos@, color),
    { unimplemented!() }
}

// ---------------------------------------------------------------- the shared stop flag (R10)
/// `running: Arc<AtomicBool>` is modelled by a ghost "halted" bit.  A stop may arrive during any call, so every
/// &mut self function may turn halted on; nothing in the search ever turns it off (start() is only called by
/// Search::search before iter_deep).
/// last_best: the move named on the last `bestmove` line; cache_off: [C11] hypothesis "result caching neutralised": transposition-table probes find nothing
pub struct RunFlag { pub flag_down: Ghost<bool>, pub lim: Ghost<bool>, pub bestmoves: Ghost<int>, pub reported: Ghost<Seq<int>>, pub quiet: Ghost<bool>, pub cache_off: Ghost<bool>, pub last_best: Ghost<Option<Ply>> }

pub struct Instant { pub t: Ghost<int> }
impl Clone for Instant { #[verifier::external_body] fn clone(&self) -> (r: Self) ensures r == *self { unimplemented!() } }
impl Copy for Instant {}
impl Instant {
    #[verifier::external_body]
    pub fn now() -> (r: Instant) { unimplemented!() }
    /// milliseconds since `self`; SUBST of `start.elapsed().as_millis()`
    #[verifier::external_body]
    /// `t` stands for the time that had already elapsed since `self` when the caller started: the clock is monotone, so
    /// every later reading is at least that
    pub fn elapsed_ms(&self) -> (r: u128) ensures r < u128::MAX, r >= self.t@ { unimplemented!() }   // range: fewer than 2^128-1 ms elapse
}

pub struct SimpleEvaluator;
impl SimpleEvaluator {
    // C17 unit: evaluate leaves the board unchanged and returns the material balance
    #[verifier::external_body]
    pub fn evaluate(&self, board: &mut Board) -> (r: Score)
        ensures *final(board) == *old(board),
                r as int == eval_of(old(board).pos@),   // [C11] a function of the position (eval unit)
    { unimplemented!() }
}

#[verifier::external_body]
pub fn fmt_opaque() -> String { unimplemented!() }
#[verifier::external_body]
pub fn print_opaque() { unimplemented!() }

pub assume_specification[ i16::saturating_neg ](a: i16) -> (r: i16)
    ensures r == (if a == -32768 { 32767int } else { -(a as int) });

// Ply::default() (verified verbatim in the board unit); its value is irrelevant to the search contracts
impl Default for Ply {
    #[verifier::external_body]
    fn default() -> Self { unimplemented!() }
}

pub assume_specification<T: Copy>[ Option::<&T>::copied ](o: Option<&T>) -> (r: Option<T>)
    ensures r == (match o { Some(x) => Some(*x), None => None::<T> });

pub assume_specification[ <i16 as core::convert::From<u8>>::from ](x: u8) -> (r: i16)
    ensures r == x as int;
