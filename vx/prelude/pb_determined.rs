// ---- the twelve piece boards (and the three unions) are determined by the placement they encode
pub proof fn lemma_u64_ext(x: u64, y: u64)
    requires forall|i: int| 0 <= i < 64 ==> bit(x, i) == bit(y, i),
    ensures x == y,
{
    assert forall|i: u64| i < 64 implies ((x >> i) & 1 == 1) == ((y >> i) & 1 == 1) by { assert(bit(x, i as int) == bit(y, i as int)); }
    assert((forall|i: u64| i < 64 ==> ((x >> i) & 1 == 1) == ((y >> i) & 1 == 1)) ==> x == y) by(bit_vector);
}
pub proof fn lemma_board_bits(pb: PieceBitboards, i: int)
    requires pb_wf(pb), 0 <= i < 64,
    ensures
        bit(pb.white_pawns.0, i) == (at(pb)(sq_of(i)) == Some(Kind::Pawn(Color::White))),
        bit(pb.white_king.0, i) == (at(pb)(sq_of(i)) == Some(Kind::King(Color::White))),
        bit(pb.white_queens.0, i) == (at(pb)(sq_of(i)) == Some(Kind::Queen(Color::White))),
        bit(pb.white_rooks.0, i) == (at(pb)(sq_of(i)) == Some(Kind::Rook(Color::White))),
        bit(pb.white_knights.0, i) == (at(pb)(sq_of(i)) == Some(Kind::Knight(Color::White))),
        bit(pb.white_bishops.0, i) == (at(pb)(sq_of(i)) == Some(Kind::Bishop(Color::White))),
        bit(pb.black_pawns.0, i) == (at(pb)(sq_of(i)) == Some(Kind::Pawn(Color::Black))),
        bit(pb.black_king.0, i) == (at(pb)(sq_of(i)) == Some(Kind::King(Color::Black))),
        bit(pb.black_queens.0, i) == (at(pb)(sq_of(i)) == Some(Kind::Queen(Color::Black))),
        bit(pb.black_rooks.0, i) == (at(pb)(sq_of(i)) == Some(Kind::Rook(Color::Black))),
        bit(pb.black_knights.0, i) == (at(pb)(sq_of(i)) == Some(Kind::Knight(Color::Black))),
        bit(pb.black_bishops.0, i) == (at(pb)(sq_of(i)) == Some(Kind::Bishop(Color::Black))),
{
    broadcast use lemma_bit_or, lemma_bit_and, lemma_bit_zero;
    assert(sq_idx(sq_of(i)) == i && sq_ok(sq_of(i)));
    assert(bit(pb.white_pieces.0 & pb.black_pieces.0, i) == (bit(pb.white_pieces.0, i) && bit(pb.black_pieces.0, i)));
}
/// two well-formed sets of boards that show the same placement are the same boards
pub proof fn lemma_pb_determined(a: PieceBitboards, b: PieceBitboards)
    requires pb_wf(a), pb_wf(b), at(a) == at(b),
    ensures a == b,
{
    assert forall|i: int| 0 <= i < 64 implies
        bit(a.white_pawns.0, i) == bit(b.white_pawns.0, i) && bit(a.white_king.0, i) == bit(b.white_king.0, i)
        && bit(a.white_queens.0, i) == bit(b.white_queens.0, i) && bit(a.white_rooks.0, i) == bit(b.white_rooks.0, i)
        && bit(a.white_knights.0, i) == bit(b.white_knights.0, i) && bit(a.white_bishops.0, i) == bit(b.white_bishops.0, i)
        && bit(a.black_pawns.0, i) == bit(b.black_pawns.0, i) && bit(a.black_king.0, i) == bit(b.black_king.0, i)
        && bit(a.black_queens.0, i) == bit(b.black_queens.0, i) && bit(a.black_rooks.0, i) == bit(b.black_rooks.0, i)
        && bit(a.black_knights.0, i) == bit(b.black_knights.0, i) && bit(a.black_bishops.0, i) == bit(b.black_bishops.0, i)
    by { lemma_board_bits(a, i); lemma_board_bits(b, i); }
    lemma_u64_ext(a.white_pawns.0, b.white_pawns.0); lemma_u64_ext(a.white_king.0, b.white_king.0);
    lemma_u64_ext(a.white_queens.0, b.white_queens.0); lemma_u64_ext(a.white_rooks.0, b.white_rooks.0);
    lemma_u64_ext(a.white_knights.0, b.white_knights.0); lemma_u64_ext(a.white_bishops.0, b.white_bishops.0);
    lemma_u64_ext(a.black_pawns.0, b.black_pawns.0); lemma_u64_ext(a.black_king.0, b.black_king.0);
    lemma_u64_ext(a.black_queens.0, b.black_queens.0); lemma_u64_ext(a.black_rooks.0, b.black_rooks.0);
    lemma_u64_ext(a.black_knights.0, b.black_knights.0); lemma_u64_ext(a.black_bishops.0, b.black_bishops.0);
}
/// [C02] positions that same_position cannot tell apart have identical piece boards (not just the same placement)
pub proof fn lemma_same_position_boards(a: Board, b: Board)
    requires same_position(a, b),
    ensures a.bitboards == b.bitboards,
{
    assert(at(a.bitboards) =~= at(b.bitboards));
    lemma_pb_determined(a.bitboards, b.bitboards);
}
