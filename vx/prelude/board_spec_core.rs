// =====================================================================================
// Spec side of the BOARD units (DESIGN.md section 2.6 and Appendix A).
// Written from the property statements (C02, C03, C04) and the FIDE rules, not from the code.
// =====================================================================================

pub type Placement = spec_fn(Square) -> Option<Kind>;

pub open spec fn sq_ok(s: Square) -> bool { s.rank < 8 && s.file < 8 }
pub open spec fn sq_idx(s: Square) -> int { s.rank as int * 8 + s.file as int }
pub open spec fn sq(rank: int, file: int) -> Square { Square { rank: rank as u8, file: file as u8 } }
pub open spec fn sq_of(i: int) -> Square { Square { rank: (i / 8) as u8, file: (i % 8) as u8 } }

pub open spec fn upd(m: Placement, k: Square, v: Option<Kind>) -> Placement {
    |s: Square| if s == k { v } else { m(s) }
}

pub open spec fn color_of(k: Kind) -> Color {
    match k {
        Kind::Pawn(c) => c, Kind::King(c) => c, Kind::Queen(c) => c,
        Kind::Rook(c) => c, Kind::Bishop(c) => c, Kind::Knight(c) => c,
    }
}
pub open spec fn opp(c: Color) -> Color { match c { Color::White => Color::Black, Color::Black => Color::White } }
pub open spec fn is_pawn(k: Kind) -> bool { k matches Kind::Pawn(_) }
pub open spec fn is_king(k: Kind) -> bool { k matches Kind::King(_) }

// ---- Zobrist key components: one table slot per position component (C04/C05)
pub enum Comp {
    Piece(Kind, Square),
    Right(CastlingKind),
    Ep(u8),
    WhiteTurn,
}
/// the set of table slots XORed into a key, kept per component family so that a toggle of one family
/// visibly leaves the others alone
pub struct KeySet {
    pub pieces: spec_fn(Kind, Square) -> bool,
    pub wk: bool, pub wq: bool, pub bk: bool, pub bq: bool,
    pub ep: spec_fn(u8) -> bool,
    pub white_turn: bool,
}
pub open spec fn ks_has(c: KeySet, x: Comp) -> bool {
    match x {
        Comp::Piece(k, s) => (c.pieces)(k, s),
        Comp::Right(CastlingKind::WhiteKingside) => c.wk,
        Comp::Right(CastlingKind::WhiteQueenside) => c.wq,
        Comp::Right(CastlingKind::BlackKingside) => c.bk,
        Comp::Right(CastlingKind::BlackQueenside) => c.bq,
        Comp::Ep(f) => (c.ep)(f),
        Comp::WhiteTurn => c.white_turn,
    }
}
pub open spec fn flip_piece(c: KeySet, k: Kind, s: Square) -> KeySet {
    KeySet { pieces: |k2: Kind, s2: Square| if k2 == k && s2 == s { !(c.pieces)(k2, s2) } else { (c.pieces)(k2, s2) }, ..c }
}
pub open spec fn flip_right(c: KeySet, k: CastlingKind) -> KeySet {
    match k {
        CastlingKind::WhiteKingside => KeySet { wk: !c.wk, ..c },
        CastlingKind::WhiteQueenside => KeySet { wq: !c.wq, ..c },
        CastlingKind::BlackKingside => KeySet { bk: !c.bk, ..c },
        CastlingKind::BlackQueenside => KeySet { bq: !c.bq, ..c },
    }
}
pub open spec fn flip_ep(c: KeySet, f: u8) -> KeySet {
    KeySet { ep: |f2: u8| if f2 == f { !(c.ep)(f2) } else { (c.ep)(f2) }, ..c }
}
pub open spec fn flip_turn(c: KeySet) -> KeySet { KeySet { white_turn: !c.white_turn, ..c } }

pub open spec fn avail(r: CastlingRights, k: CastlingKind) -> bool {
    match k {
        CastlingKind::WhiteKingside => r.white_kingside == CastlingStatus::Available,
        CastlingKind::WhiteQueenside => r.white_queenside == CastlingStatus::Available,
        CastlingKind::BlackKingside => r.black_kingside == CastlingStatus::Available,
        CastlingKind::BlackQueenside => r.black_queenside == CastlingStatus::Available,
    }
}

/// the components of a position: exactly these slots must be in its key
pub open spec fn comp_in(m: Placement, r: CastlingRights, ep: Option<u8>, turn: Color, c: Comp) -> bool {
    match c {
        Comp::Piece(k, s) => sq_ok(s) && m(s) == Some(k),
        Comp::Right(k) => avail(r, k),
        Comp::Ep(f) => ep == Some(f),
        Comp::WhiteTurn => turn == Color::White,
    }
}

