// =====================================================================================
// Abstract leaves of the BOARD units.  Everything in this file marked external_body /
// assume_specification / axiom is an ASSUMPTION of the Verus side; the ledger (ledger.json)
// says which Kani harness or which other Verus unit proves it on the real code.
// =====================================================================================

// ---------------------------------------------------------------- PieceBitboards view
/// piece standing on a square, read from the twelve piece boards in the order get_piece_kind uses
pub open spec fn at(pb: PieceBitboards) -> Placement {
    |s: Square| {
        let i = sq_idx(s);
        if !sq_ok(s) { None }
        else if bit(pb.white_pawns.0, i) { Some(Kind::Pawn(Color::White)) }
        else if bit(pb.white_king.0, i) { Some(Kind::King(Color::White)) }
        else if bit(pb.white_queens.0, i) { Some(Kind::Queen(Color::White)) }
        else if bit(pb.white_rooks.0, i) { Some(Kind::Rook(Color::White)) }
        else if bit(pb.white_knights.0, i) { Some(Kind::Knight(Color::White)) }
        else if bit(pb.white_bishops.0, i) { Some(Kind::Bishop(Color::White)) }
        else if bit(pb.black_pawns.0, i) { Some(Kind::Pawn(Color::Black)) }
        else if bit(pb.black_king.0, i) { Some(Kind::King(Color::Black)) }
        else if bit(pb.black_queens.0, i) { Some(Kind::Queen(Color::Black)) }
        else if bit(pb.black_rooks.0, i) { Some(Kind::Rook(Color::Black)) }
        else if bit(pb.black_knights.0, i) { Some(Kind::Knight(Color::Black)) }
        else if bit(pb.black_bishops.0, i) { Some(Kind::Bishop(Color::Black)) }
        else { None }
    }
}

pub open spec fn disj(a: Bitboard, b: Bitboard) -> bool { a.0 & b.0 == 0 }

/// PieceBitboards representation invariant, word level (the same text is assumed/asserted by the Kani ledger rows)
pub open spec fn pb_wf(pb: PieceBitboards) -> bool {
    &&& pb.white_pieces.0 == pb.white_pawns.0 | pb.white_knights.0 | pb.white_bishops.0 | pb.white_rooks.0 | pb.white_queens.0 | pb.white_king.0
    &&& pb.black_pieces.0 == pb.black_pawns.0 | pb.black_knights.0 | pb.black_bishops.0 | pb.black_rooks.0 | pb.black_queens.0 | pb.black_king.0
    &&& pb.all_pieces.0 == pb.white_pieces.0 | pb.black_pieces.0
    &&& disj(pb.white_pieces, pb.black_pieces)
    &&& disj(pb.white_pawns, pb.white_king) && disj(pb.white_pawns, pb.white_queens) && disj(pb.white_pawns, pb.white_rooks)
        && disj(pb.white_pawns, pb.white_knights) && disj(pb.white_pawns, pb.white_bishops)
    &&& disj(pb.white_king, pb.white_queens) && disj(pb.white_king, pb.white_rooks) && disj(pb.white_king, pb.white_knights)
        && disj(pb.white_king, pb.white_bishops)
    &&& disj(pb.white_queens, pb.white_rooks) && disj(pb.white_queens, pb.white_knights) && disj(pb.white_queens, pb.white_bishops)
    &&& disj(pb.white_rooks, pb.white_knights) && disj(pb.white_rooks, pb.white_bishops)
    &&& disj(pb.white_knights, pb.white_bishops)
    &&& disj(pb.black_pawns, pb.black_king) && disj(pb.black_pawns, pb.black_queens) && disj(pb.black_pawns, pb.black_rooks)
        && disj(pb.black_pawns, pb.black_knights) && disj(pb.black_pawns, pb.black_bishops)
    &&& disj(pb.black_king, pb.black_queens) && disj(pb.black_king, pb.black_rooks) && disj(pb.black_king, pb.black_knights)
        && disj(pb.black_king, pb.black_bishops)
    &&& disj(pb.black_queens, pb.black_rooks) && disj(pb.black_queens, pb.black_knights) && disj(pb.black_queens, pb.black_bishops)
    &&& disj(pb.black_rooks, pb.black_knights) && disj(pb.black_rooks, pb.black_bishops)
    &&& disj(pb.black_knights, pb.black_bishops)
}

impl PieceBitboards {
    // LEDGER pb_add_piece: proved by Kani harness kx::pb::add_piece on the real PieceBitboards::add_piece
    #[verifier::external_body]
    pub fn add_piece(&mut self, square: Square, kind: Kind)
        requires sq_ok(square), pb_wf(*old(self)), at(*old(self))(square).is_none(),
        ensures pb_wf(*final(self)), at(*final(self)) == upd(at(*old(self)), square, Some(kind)),
    { unimplemented!() }

    // LEDGER pb_remove_piece: proved by Kani harness kx::pb::remove_piece on the real PieceBitboards::remove_piece
    #[verifier::external_body]
    pub fn remove_piece(&mut self, square: Square, kind: Kind)
        requires sq_ok(square), pb_wf(*old(self)), at(*old(self))(square) == Some(kind),
        ensures pb_wf(*final(self)), at(*final(self)) == upd(at(*old(self)), square, None),
    { unimplemented!() }

    // LEDGER pb_get_piece_kind: proved by Kani harness kx::pb::get_piece_kind
    #[verifier::external_body]
    pub fn get_piece_kind(&self, square: Square) -> (r: Option<Kind>)
        requires sq_ok(square), pb_wf(*self),
        ensures r == at(*self)(square),
    { unimplemented!() }
}

