// ---- the slot set of a position (needs pl(), last() from the including unit)
pub open spec fn pcs_of(m: Placement) -> spec_fn(Kind, Square) -> bool { |k: Kind, s: Square| sq_ok(s) && m(s) == Some(k) }
pub open spec fn ep_set(ep: Option<u8>) -> spec_fn(u8) -> bool { |f: u8| ep == Some(f) }
pub open spec fn slots_of(b: Board) -> KeySet {
    KeySet {
        pieces: pcs_of(pl(b)),
        wk: last(b).castling_rights.white_kingside == CastlingStatus::Available,
        wq: last(b).castling_rights.white_queenside == CastlingStatus::Available,
        bk: last(b).castling_rights.black_kingside == CastlingStatus::Available,
        bq: last(b).castling_rights.black_queenside == CastlingStatus::Available,
        ep: ep_set(b.en_passant_file),
        white_turn: b.current_turn == Color::White,
    }
}
