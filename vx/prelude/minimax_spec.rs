// =====================================================================================
// [C11] The engine's own look-ahead game as a mathematical function of the abstract position (taken from the property
// statement): full width to the nominal depth, one extra ply whenever the side to move is in check, capture-only
// quiescence with stand-pat at the horizon, immediate draw on the fifty-move rule or a repeated position, mate scored by
// distance from the root.  `ply` is the distance from the root (Info::depth); the search abandons a line at ply 255
// (limits_exceeded), where these functions are arbitrary (0) -- every use is conditional on "not halted".
// =====================================================================================
pub open spec fn imax(a: int, b: int) -> int { if a >= b { a } else { b } }
/// below every value a node can take
pub open spec fn low() -> int { -40000 }

/// value of the child reached by m, seen from the parent (q: inside quiescence)
pub open spec fn cval(p: GPos, m: Ply, d: int, ply: int, q: bool) -> int
    decreases 255 - ply, 0int, 0int,
{
    if ply < 0 || ply >= 255 { 0 } else if q { -qv(step(p, m), ply + 1) } else { -mm(step(p, m), d - 1, ply + 1) }
}
/// max(floor, values of the legal moves among the first n of s)
pub open spec fn fold(p: GPos, s: Seq<Ply>, n: int, d: int, ply: int, q: bool, floor: int) -> int
    decreases 255 - ply, 1int, n,
{
    if ply < 0 || ply >= 255 || n <= 0 { floor } else {
        let r = fold(p, s, n - 1, d, ply, q, floor);
        if legal(p, s[n - 1]) { imax(r, cval(p, s[n - 1], d, ply, q)) } else { r }
    }
}
/// number of legal moves among the first n of s
pub open spec fn nlegal(p: GPos, s: Seq<Ply>, n: int) -> int
    decreases n,
{
    if n <= 0 { 0 } else { nlegal(p, s, n - 1) + (if legal(p, s[n - 1]) { 1int } else { 0int }) }
}
/// quiescence value: stand pat or the best legal capture
pub open spec fn qv(p: GPos, ply: int) -> int
    decreases 255 - ply, 2int, 0int,
{
    if ply < 0 || ply >= 255 { 0 } else { fold(p, caps_of(p), caps_of(p).len() as int, 0, ply, true, eval_of(p)) }
}
/// the minimax value of the look-ahead game
pub open spec fn mm(p: GPos, depth: int, ply: int) -> int
    decreases 255 - ply, 3int, 0int,
{
    if ply < 0 || ply >= 255 { 0 }
    else if halfmove_of(p) >= 100 { 0 }
    else if repeated(p) { 0 }
    else {
        let chk = in_check_pos(p, turn_of(p));
        let d = if chk { depth + 1 } else { depth };
        if d <= 0 { qv(p, ply) }
        else if nlegal(p, moves_of(p), moves_of(p).len() as int) == 0 { if chk { -32768 + ply } else { 0 } }
        else { fold(p, moves_of(p), moves_of(p).len() as int, d, ply, false, low()) }
    }
}

/// what a search function called with window (a, b) may return for a node of value v (fail-soft contract):
/// inside the window the exact value, outside a bound on the correct side
pub open spec fn ab_ok(r: int, v: int, a: int, b: int) -> bool {
    &&& (r <= a ==> v <= r)
    &&& (r >= b ==> v >= r)
    &&& (a < r < b ==> v == r)
}

/// two lists hold the same moves (the orderer only permutes)
pub open spec fn same_set(a: Seq<Ply>, b: Seq<Ply>) -> bool { forall|x: Ply| a.contains(x) == b.contains(x) }

// ---- facts about fold / nlegal (all by induction on n)
pub proof fn lemma_fold_char(p: GPos, s: Seq<Ply>, n: int, d: int, ply: int, q: bool, floor: int)
    requires 0 <= n <= s.len(), 0 <= ply < 255,
    ensures
        fold(p, s, n, d, ply, q, floor) >= floor,
        forall|i: int| 0 <= i < n && legal(p, s[i]) ==> cval(p, #[trigger] s[i], d, ply, q) <= fold(p, s, n, d, ply, q, floor),
        fold(p, s, n, d, ply, q, floor) == floor || exists|i: int| 0 <= i < n && legal(p, s[i]) && cval(p, #[trigger] s[i], d, ply, q) == fold(p, s, n, d, ply, q, floor),
    decreases n,
{
    if n > 0 {
        lemma_fold_char(p, s, n - 1, d, ply, q, floor);
        let r = fold(p, s, n - 1, d, ply, q, floor);
        if r != floor {
            let i = choose|i: int| 0 <= i < n - 1 && legal(p, s[i]) && cval(p, #[trigger] s[i], d, ply, q) == r;
            assert(0 <= i < n && legal(p, s[i]) && cval(p, s[i], d, ply, q) == r);
        }
        if legal(p, s[n - 1]) { assert(0 <= n - 1 < n && legal(p, s[n - 1])); }
    }
}
/// a legal move among the first n bounds the fold from below
pub broadcast proof fn lemma_fold_ge(p: GPos, s: Seq<Ply>, n: int, d: int, ply: int, q: bool, floor: int, i: int)
    requires 0 <= i < n <= s.len(), 0 <= ply < 255, legal(p, s[i]),
    ensures cval(p, #[trigger] s[i], d, ply, q) <= #[trigger] fold(p, s, n, d, ply, q, floor),
{ lemma_fold_char(p, s, n, d, ply, q, floor); }

pub broadcast proof fn lemma_fold_ge_floor(p: GPos, s: Seq<Ply>, n: int, d: int, ply: int, q: bool, floor: int)
    requires 0 <= n <= s.len(), 0 <= ply < 255,
    ensures #[trigger] fold(p, s, n, d, ply, q, floor) >= floor,
{ lemma_fold_char(p, s, n, d, ply, q, floor); }
/// raising the floor is taking the max with it afterwards
pub proof fn lemma_fold_floor(p: GPos, s: Seq<Ply>, n: int, d: int, ply: int, q: bool, a: int, b: int)
    requires 0 <= n <= s.len(),
    ensures fold(p, s, n, d, ply, q, imax(a, b)) == imax(a, fold(p, s, n, d, ply, q, b)),
    decreases n,
{
    if n > 0 && 0 <= ply < 255 { lemma_fold_floor(p, s, n - 1, d, ply, q, a, b); }
}
/// only the first n entries matter
pub broadcast proof fn lemma_fold_prefix(p: GPos, s1: Seq<Ply>, s2: Seq<Ply>, n: int, d: int, ply: int, q: bool, floor: int)
    requires 0 <= n <= s1.len(), n <= s2.len(), forall|i: int| 0 <= i < n ==> s1[i] == s2[i],
    ensures #[trigger] fold(p, s1, n, d, ply, q, floor) == #[trigger] fold(p, s2, n, d, ply, q, floor),
    decreases n,
{
    if n > 0 && 0 <= ply < 255 { lemma_fold_prefix(p, s1, s2, n - 1, d, ply, q, floor); }
}
pub broadcast proof fn lemma_nlegal_prefix(p: GPos, s1: Seq<Ply>, s2: Seq<Ply>, n: int)
    requires 0 <= n <= s1.len(), n <= s2.len(), forall|i: int| 0 <= i < n ==> s1[i] == s2[i],
    ensures #[trigger] nlegal(p, s1, n) == #[trigger] nlegal(p, s2, n),
    decreases n,
{
    if n > 0 { lemma_nlegal_prefix(p, s1, s2, n - 1); }
}
pub proof fn lemma_nlegal_char(p: GPos, s: Seq<Ply>, n: int)
    requires 0 <= n <= s.len(),
    ensures nlegal(p, s, n) >= 0,
            nlegal(p, s, n) == 0 <==> (forall|i: int| 0 <= i < n ==> !legal(p, #[trigger] s[i])),
    decreases n,
{
    if n > 0 { lemma_nlegal_char(p, s, n - 1); }
}
/// the order of the list does not matter: same moves, same value
pub proof fn lemma_fold_perm(p: GPos, s1: Seq<Ply>, s2: Seq<Ply>, d: int, ply: int, q: bool, floor: int)
    requires same_set(s1, s2), 0 <= ply < 255,
    ensures fold(p, s1, s1.len() as int, d, ply, q, floor) == fold(p, s2, s2.len() as int, d, ply, q, floor),
{
    lemma_fold_char(p, s1, s1.len() as int, d, ply, q, floor);
    lemma_fold_char(p, s2, s2.len() as int, d, ply, q, floor);
    let f1 = fold(p, s1, s1.len() as int, d, ply, q, floor);
    let f2 = fold(p, s2, s2.len() as int, d, ply, q, floor);
    if f1 != floor {
        let i = choose|i: int| 0 <= i < s1.len() && legal(p, s1[i]) && cval(p, #[trigger] s1[i], d, ply, q) == f1;
        assert(s1.contains(s1[i]));
        assert(s2.contains(s1[i]));
        let j = choose|j: int| 0 <= j < s2.len() && s2[j] == s1[i];
        assert(legal(p, s2[j]) && cval(p, s2[j], d, ply, q) <= f2);
    }
    if f2 != floor {
        let i = choose|i: int| 0 <= i < s2.len() && legal(p, s2[i]) && cval(p, #[trigger] s2[i], d, ply, q) == f2;
        assert(s2.contains(s2[i]));
        assert(s1.contains(s2[i]));
        let j = choose|j: int| 0 <= j < s1.len() && s1[j] == s2[i];
        assert(legal(p, s1[j]) && cval(p, s1[j], d, ply, q) <= f1);
    }
}
pub proof fn lemma_nlegal_perm(p: GPos, s1: Seq<Ply>, s2: Seq<Ply>)
    requires same_set(s1, s2),
    ensures (nlegal(p, s1, s1.len() as int) == 0) == (nlegal(p, s2, s2.len() as int) == 0),
{
    lemma_nlegal_char(p, s1, s1.len() as int);
    lemma_nlegal_char(p, s2, s2.len() as int);
    if nlegal(p, s1, s1.len() as int) == 0 {
        assert forall|j: int| 0 <= j < s2.len() implies !legal(p, #[trigger] s2[j]) by {
            assert(s2.contains(s2[j])); assert(s1.contains(s2[j]));
            let i = choose|i: int| 0 <= i < s1.len() && s1[i] == s2[j];
            assert(!legal(p, s1[i]));
        }
    }
    if nlegal(p, s2, s2.len() as int) == 0 {
        assert forall|j: int| 0 <= j < s1.len() implies !legal(p, #[trigger] s1[j]) by {
            assert(s1.contains(s1[j])); assert(s2.contains(s1[j]));
            let i = choose|i: int| 0 <= i < s2.len() && s2[i] == s1[j];
            assert(!legal(p, s2[i]));
        }
    }
}
/// what the search loops use when the orderer is exhausted: the value accumulated over the permuted list, started at
/// `floor`, is max(floor, value over the generated list)
pub broadcast proof fn lemma_fold_done(p: GPos, s1: Seq<Ply>, s2: Seq<Ply>, d: int, ply: int, q: bool, a: int, b: int)
    requires same_set(s1, s2), 0 <= ply < 255, a >= b,
    ensures #[trigger] fold(p, s1, s1.len() as int, d, ply, q, a) == imax(a, #[trigger] fold(p, s2, s2.len() as int, d, ply, q, b)),
{
    assert(imax(a, b) == a);
    lemma_fold_floor(p, s1, s1.len() as int, d, ply, q, a, b);
    lemma_fold_perm(p, s1, s2, d, ply, q, b);
}
pub broadcast proof fn lemma_nlegal_done(p: GPos, s1: Seq<Ply>, s2: Seq<Ply>)
    requires same_set(s1, s2),
    ensures (#[trigger] nlegal(p, s1, s1.len() as int) == 0) == (#[trigger] nlegal(p, s2, s2.len() as int) == 0),
{ lemma_nlegal_perm(p, s1, s2); }
pub broadcast proof fn lemma_nlegal_nonneg(p: GPos, s: Seq<Ply>, n: int)
    requires 0 <= n <= s.len(),
    ensures #[trigger] nlegal(p, s, n) >= 0,
{ lemma_nlegal_char(p, s, n); }
/// a legal move that is in the list: the list has a legal move, and the fold is at least its value
pub broadcast proof fn lemma_member_legal(p: GPos, s: Seq<Ply>, m: Ply, d: int, ply: int, q: bool, floor: int)
    requires s.contains(m), legal(p, m), 0 <= ply < 255,
    ensures nlegal(p, s, s.len() as int) > 0, cval(p, m, d, ply, q) <= #[trigger] fold(p, s, s.len() as int, d, ply, q, floor), #[trigger] legal(p, m),
{
    let i = choose|i: int| 0 <= i < s.len() && s[i] == m;
    lemma_nlegal_char(p, s, s.len() as int);
    lemma_fold_char(p, s, s.len() as int, d, ply, q, floor);
    assert(legal(p, s[i]));
}

// ---- definitional unfoldings, offered to the solver where the search functions are checked
pub broadcast proof fn lemma_qv_def(p: GPos, ply: int)
    ensures #[trigger] qv(p, ply) == (if ply < 0 || ply >= 255 { 0 } else { fold(p, caps_of(p), caps_of(p).len() as int, 0, ply, true, eval_of(p)) }),
{}
pub broadcast proof fn lemma_mm_def(p: GPos, depth: int, ply: int)
    ensures #[trigger] mm(p, depth, ply) == (
        if ply < 0 || ply >= 255 { 0 }
        else if halfmove_of(p) >= 100 { 0 }
        else if repeated(p) { 0 }
        else {
            let chk = in_check_pos(p, turn_of(p));
            let d = if chk { depth + 1 } else { depth };
            if d <= 0 { qv(p, ply) }
            else if nlegal(p, moves_of(p), moves_of(p).len() as int) == 0 { if chk { -32768 + ply } else { 0 } }
            else { fold(p, moves_of(p), moves_of(p).len() as int, d, ply, false, low()) }
        }),
{}
pub broadcast proof fn lemma_cval_def(p: GPos, m: Ply, d: int, ply: int, q: bool)
    // only for moves that are actually played (a step(p, m) term exists): unfolding alone never creates new instances
    ensures #[trigger] cval(p, m, d, ply, q) == (if ply < 0 || ply >= 255 { 0 } else if q { -qv(#[trigger] step(p, m), ply + 1) } else { -mm(step(p, m), d - 1, ply + 1) }),
{}

// ---- one step of the orderer: the first k entries are frozen (s2 agrees with s1 there), entry k of s2 is handed out
pub broadcast proof fn lemma_fold_step(p: GPos, s1: Seq<Ply>, s2: Seq<Ply>, k: int, n: int, d: int, ply: int, q: bool, floor: int)
    requires 0 <= k < s2.len(), k <= s1.len(), n == k + 1, 0 <= ply < 255, forall|i: int| 0 <= i < k ==> s2[i] == s1[i],
    ensures #[trigger] fold(p, s2, n, d, ply, q, floor) == (if legal(p, s2[k]) { imax(#[trigger] fold(p, s1, k, d, ply, q, floor), cval(p, s2[k], d, ply, q)) }
            else { fold(p, s1, k, d, ply, q, floor) }),
{
    lemma_fold_prefix(p, s2, s1, k, d, ply, q, floor);
}
pub broadcast proof fn lemma_nlegal_step(p: GPos, s1: Seq<Ply>, s2: Seq<Ply>, k: int, n: int)
    requires 0 <= k < s2.len(), k <= s1.len(), n == k + 1, forall|i: int| 0 <= i < k ==> s2[i] == s1[i],
    ensures #[trigger] nlegal(p, s2, n) == #[trigger] nlegal(p, s1, k) + (if legal(p, s2[k]) { 1int } else { 0int }),
{
    lemma_nlegal_prefix(p, s2, s1, k);
}

// ---- value bounds: every node below the root has a value in [-32767, 32767] (so negation never saturates and the
// root's full window (-32768, 32767) contains every child value), provided the static evaluation is in that range
/// hypothesis on the evaluator (material differences of real positions are far smaller; eval unit)
pub open spec fn eval_small() -> bool { forall|p: GPos| -32767 <= #[trigger] eval_of(p) <= 32767 }
pub open spec fn in_range(v: int) -> bool { -32767 <= v <= 32767 }

pub proof fn lemma_value_bounds(p: GPos, depth: int, ply: int)
    requires eval_small(), 1 <= ply,
    ensures in_range(mm(p, depth, ply)), in_range(qv(p, ply)),
    decreases 255 - ply, 3int, 0int,
{
    if ply < 255 {
        lemma_fold_bounds(p, caps_of(p), caps_of(p).len() as int, 0, ply, true, eval_of(p));
        let chk = in_check_pos(p, turn_of(p));
        let d = if chk { depth + 1 } else { depth };
        lemma_fold_bounds(p, moves_of(p), moves_of(p).len() as int, d, ply, false, low());
        lemma_fold_char(p, moves_of(p), moves_of(p).len() as int, d, ply, false, low());
        lemma_nlegal_char(p, moves_of(p), moves_of(p).len() as int);
    }
}
/// the fold stays between its floor and max(floor, 32767), and is either the floor or a child value in range
pub proof fn lemma_fold_bounds(p: GPos, s: Seq<Ply>, n: int, d: int, ply: int, q: bool, floor: int)
    requires eval_small(), 0 <= ply < 255, 0 <= n <= s.len(),
    ensures fold(p, s, n, d, ply, q, floor) == floor || in_range(fold(p, s, n, d, ply, q, floor)),
            forall|i: int| 0 <= i < n ==> in_range(cval(p, #[trigger] s[i], d, ply, q)),
    decreases 255 - ply, 1int, n,
{
    if n > 0 {
        lemma_fold_bounds(p, s, n - 1, d, ply, q, floor);
        lemma_value_bounds(step(p, s[n - 1]), d - 1, ply + 1);
        let c = cval(p, s[n - 1], d, ply, q);
        assert(c == (if q { -qv(step(p, s[n - 1]), ply + 1) } else { -mm(step(p, s[n - 1]), d - 1, ply + 1) }));
        assert(in_range(c));
        let r = fold(p, s, n - 1, d, ply, q, floor);
        assert(fold(p, s, n, d, ply, q, floor) == (if legal(p, s[n - 1]) { imax(r, c) } else { r }));
    }
}
pub broadcast proof fn lemma_cval_range(p: GPos, m: Ply, d: int, ply: int, q: bool)
    requires eval_small(), 0 <= ply < 255,
    ensures in_range(#[trigger] cval(p, m, d, ply, q)),
{ lemma_value_bounds(step(p, m), d - 1, ply + 1); }

/// [C11] the value of the root position searched to `depth`: no draw test and no check extension at the root itself
/// (alpha_beta_start), children at ply 1
pub open spec fn root_value(p: GPos, depth: int) -> int { fold(p, moves_of(p), moves_of(p).len() as int, depth, 0, false, low()) }
