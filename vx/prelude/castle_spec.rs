// ---- castling preconditions in FIDE terms (shared by the check and movegen units)
pub open spec fn last(b: Board) -> Ply { b.history@[b.history@.len() - 1] }
pub open spec fn right_of(b: Board, k: CastlingKind) -> CastlingStatus {
    match k {
        CastlingKind::WhiteKingside => last(b).castling_rights.white_kingside,
        CastlingKind::WhiteQueenside => last(b).castling_rights.white_queenside,
        CastlingKind::BlackKingside => last(b).castling_rights.black_kingside,
        CastlingKind::BlackQueenside => last(b).castling_rights.black_queenside,
    }
}
/// [C01] FIDE 3.8.2: the squares that must be empty (between king and rook) and the squares the king stands on, crosses
/// and lands on (must not be attacked), as square indices
pub open spec fn castle_color(k: CastlingKind) -> Color {
    match k { CastlingKind::WhiteKingside | CastlingKind::WhiteQueenside => Color::White, _ => Color::Black }
}
pub open spec fn between_empty(b: Board, k: CastlingKind) -> bool {
    let occ = b.bitboards.all_pieces.0;
    match k {
        CastlingKind::WhiteKingside => !bit(occ, 5) && !bit(occ, 6),
        CastlingKind::WhiteQueenside => !bit(occ, 1) && !bit(occ, 2) && !bit(occ, 3),
        CastlingKind::BlackKingside => !bit(occ, 61) && !bit(occ, 62),
        CastlingKind::BlackQueenside => !bit(occ, 57) && !bit(occ, 58) && !bit(occ, 59),
    }
}
pub open spec fn king_path_safe(b: Board, k: CastlingKind) -> bool {
    let a = attacked(b, b.current_turn);
    match k {
        CastlingKind::WhiteKingside => !bit(a, 4) && !bit(a, 5) && !bit(a, 6),
        CastlingKind::WhiteQueenside => !bit(a, 4) && !bit(a, 3) && !bit(a, 2),
        CastlingKind::BlackKingside => !bit(a, 60) && !bit(a, 61) && !bit(a, 62),
        CastlingKind::BlackQueenside => !bit(a, 60) && !bit(a, 59) && !bit(a, 58),
    }
}

