// =====================================================================================
// The u64 key as the XOR-fold of the table over the slot set (shared by the BOARD and ZKEY units).
// `zt_word(c: Comp) -> u64` must be declared by the including unit (uninterpreted in BOARD, the table content in ZKEY).
// The fold is written as an accumulation of conditional XORs, the shape of the from-scratch computation.
// =====================================================================================
pub open spec fn xor_if(acc: u64, b: bool, c: Comp) -> u64 { if b { acc ^ zt_word(c) } else { acc } }

pub open spec fn kind_of(i: int, c: Color) -> Kind {
    if i == 0 { Kind::Pawn(c) } else if i == 1 { Kind::King(c) } else if i == 2 { Kind::Queen(c) }
    else if i == 3 { Kind::Rook(c) } else if i == 4 { Kind::Bishop(c) } else { Kind::Knight(c) }
}
pub open spec fn nth_kind(n: int) -> Kind { if n < 6 { kind_of(n, Color::White) } else { kind_of(n - 6, Color::Black) } }
/// position of a kind in that enumeration
pub open spec fn kind_slot(k: Kind) -> int {
    match k {
        Kind::Pawn(Color::White) => 0, Kind::King(Color::White) => 1, Kind::Queen(Color::White) => 2,
        Kind::Rook(Color::White) => 3, Kind::Bishop(Color::White) => 4, Kind::Knight(Color::White) => 5,
        Kind::Pawn(Color::Black) => 6, Kind::King(Color::Black) => 7, Kind::Queen(Color::Black) => 8,
        Kind::Rook(Color::Black) => 9, Kind::Bishop(Color::Black) => 10, Kind::Knight(Color::Black) => 11,
    }
}
/// XOR into acc the words of the first n kinds present on square s
pub open spec fn sq_acc(acc: u64, p: spec_fn(Kind, Square) -> bool, s: Square, n: int) -> u64
    decreases n,
{
    if n <= 0 { acc } else { xor_if(sq_acc(acc, p, s, n - 1), p(nth_kind(n - 1), s), Comp::Piece(nth_kind(n - 1), s)) }
}
pub open spec fn pieces_acc(p: spec_fn(Kind, Square) -> bool, n: int) -> u64
    decreases n,
{
    if n <= 0 { 0u64 } else { sq_acc(pieces_acc(p, n - 1), p, sq_of(n - 1), 12) }
}
pub open spec fn ep_acc(acc: u64, e: spec_fn(u8) -> bool, n: int) -> u64
    decreases n,
{
    if n <= 0 { acc } else { xor_if(ep_acc(acc, e, n - 1), e((n - 1) as u8), Comp::Ep((n - 1) as u8)) }
}
pub open spec fn rights_acc(acc: u64, c: KeySet) -> u64 {
    xor_if(xor_if(xor_if(xor_if(acc, c.wk, Comp::Right(CastlingKind::WhiteKingside)), c.wq, Comp::Right(CastlingKind::WhiteQueenside)),
        c.bk, Comp::Right(CastlingKind::BlackKingside)), c.bq, Comp::Right(CastlingKind::BlackQueenside))
}
/// the key value of a slot set: pieces square by square, then the four rights, the en-passant file, the side to move
pub open spec fn zfold(c: KeySet) -> u64 {
    xor_if(ep_acc(rights_acc(pieces_acc(c.pieces, 64), c), c.ep, 8), c.white_turn, Comp::WhiteTurn)
}

// ---- XOR algebra (bit-vector facts, stated once)
pub proof fn lemma_xor_facts(a: u64, b: u64, c: u64)
    ensures a ^ 0 == a, 0u64 ^ a == a, a ^ a == 0, (a ^ b) ^ c == a ^ (b ^ c), a ^ b == b ^ a, (a ^ b) ^ b == a,
            (a ^ c) ^ b == (a ^ b) ^ c,
{
    assert(a ^ 0 == a) by(bit_vector);
    assert(0u64 ^ a == a) by(bit_vector);
    assert(a ^ a == 0) by(bit_vector);
    assert((a ^ b) ^ c == a ^ (b ^ c)) by(bit_vector);
    assert(a ^ b == b ^ a) by(bit_vector);
    assert((a ^ b) ^ b == a) by(bit_vector);
    assert((a ^ c) ^ b == (a ^ b) ^ c) by(bit_vector);
}
/// a conditional XOR commutes with XORing an unrelated word into the accumulator
pub proof fn lemma_xor_if_shift(acc: u64, z: u64, b: bool, c: Comp)
    ensures xor_if(acc ^ z, b, c) == xor_if(acc, b, c) ^ z,
{ lemma_xor_facts(acc, zt_word(c), z); }
/// flipping the condition of a conditional XOR toggles its word
pub proof fn lemma_xor_if_flip(acc: u64, b: bool, c: Comp)
    ensures xor_if(acc, !b, c) == xor_if(acc, b, c) ^ zt_word(c),
{ lemma_xor_facts(acc, zt_word(c), 0); }

pub proof fn lemma_sq_acc_shift(acc: u64, z: u64, p: spec_fn(Kind, Square) -> bool, s: Square, n: int)
    requires 0 <= n <= 12,
    ensures sq_acc(acc ^ z, p, s, n) == sq_acc(acc, p, s, n) ^ z,
    decreases n,
{
    if n > 0 {
        lemma_sq_acc_shift(acc, z, p, s, n - 1);
        lemma_xor_if_shift(sq_acc(acc, p, s, n - 1), z, p(nth_kind(n - 1), s), Comp::Piece(nth_kind(n - 1), s));
    }
}
pub proof fn lemma_ep_acc_shift(acc: u64, z: u64, e: spec_fn(u8) -> bool, n: int)
    requires 0 <= n <= 8,
    ensures ep_acc(acc ^ z, e, n) == ep_acc(acc, e, n) ^ z,
    decreases n,
{
    if n > 0 {
        lemma_ep_acc_shift(acc, z, e, n - 1);
        lemma_xor_if_shift(ep_acc(acc, e, n - 1), z, e((n - 1) as u8), Comp::Ep((n - 1) as u8));
    }
}
pub proof fn lemma_rights_acc_shift(acc: u64, z: u64, c: KeySet)
    ensures rights_acc(acc ^ z, c) == rights_acc(acc, c) ^ z,
{
    let a1 = xor_if(acc, c.wk, Comp::Right(CastlingKind::WhiteKingside));
    let a2 = xor_if(a1, c.wq, Comp::Right(CastlingKind::WhiteQueenside));
    let a3 = xor_if(a2, c.bk, Comp::Right(CastlingKind::BlackKingside));
    lemma_xor_if_shift(acc, z, c.wk, Comp::Right(CastlingKind::WhiteKingside));
    lemma_xor_if_shift(a1, z, c.wq, Comp::Right(CastlingKind::WhiteQueenside));
    lemma_xor_if_shift(a2, z, c.bk, Comp::Right(CastlingKind::BlackKingside));
    lemma_xor_if_shift(a3, z, c.bq, Comp::Right(CastlingKind::BlackQueenside));
}

// ---- homomorphism: flipping one slot XORs its word into the fold
pub open spec fn flip_pieces(p: spec_fn(Kind, Square) -> bool, k: Kind, s: Square) -> spec_fn(Kind, Square) -> bool {
    |k2: Kind, t: Square| if k2 == k && t == s { !p(k2, t) } else { p(k2, t) }
}
pub proof fn lemma_nth_kind_slot(n: int)
    requires 0 <= n < 12,
    ensures kind_slot(nth_kind(n)) == n,
{}
pub proof fn lemma_sq_acc_flip(acc: u64, p: spec_fn(Kind, Square) -> bool, k: Kind, s: Square, s2: Square, n: int)
    requires 0 <= n <= 12,
    ensures sq_acc(acc, flip_pieces(p, k, s), s2, n)
        == (if s2 == s && kind_slot(k) < n { sq_acc(acc, p, s2, n) ^ zt_word(Comp::Piece(k, s)) } else { sq_acc(acc, p, s2, n) }),
    decreases n,
{
    let q = flip_pieces(p, k, s);
    if n > 0 {
        lemma_sq_acc_flip(acc, p, k, s, s2, n - 1);
        lemma_nth_kind_slot(n - 1);
        let kn = nth_kind(n - 1);
        let c = Comp::Piece(kn, s2);
        let a = sq_acc(acc, p, s2, n - 1);
        let z = zt_word(Comp::Piece(k, s));
        if s2 == s && kn == k {
            // this is the flipped slot; earlier slots are untouched
            assert(q(kn, s2) == !p(kn, s2));
            lemma_xor_if_flip(a, p(kn, s2), c);
        } else {
            assert(q(kn, s2) == p(kn, s2));
            if s2 == s && kind_slot(k) < n - 1 { lemma_xor_if_shift(a, z, p(kn, s2), c); }
        }
    }
}
pub proof fn lemma_sq_idx_of(n: int)
    requires 0 <= n < 64,
    ensures sq_idx(sq_of(n)) == n, sq_ok(sq_of(n)),
{}
pub proof fn lemma_pieces_acc_flip(p: spec_fn(Kind, Square) -> bool, k: Kind, s: Square, n: int)
    requires 0 <= n <= 64, sq_ok(s),
    ensures pieces_acc(flip_pieces(p, k, s), n)
        == (if sq_idx(s) < n { pieces_acc(p, n) ^ zt_word(Comp::Piece(k, s)) } else { pieces_acc(p, n) }),
    decreases n,
{
    let q = flip_pieces(p, k, s);
    if n > 0 {
        lemma_pieces_acc_flip(p, k, s, n - 1);
        lemma_sq_idx_of(n - 1);
        let s2 = sq_of(n - 1);
        let z = zt_word(Comp::Piece(k, s));
        lemma_sq_acc_flip(pieces_acc(q, n - 1), p, k, s, s2, 12);
        assert(sq_of(sq_idx(s)) == s);
        if sq_idx(s) < n - 1 {
            lemma_sq_acc_shift(pieces_acc(p, n - 1), z, p, s2, 12);
        }
    }
}
pub open spec fn flip_eps(e: spec_fn(u8) -> bool, f: u8) -> spec_fn(u8) -> bool { |f2: u8| if f2 == f { !e(f2) } else { e(f2) } }
pub proof fn lemma_ep_acc_flip(acc: u64, e: spec_fn(u8) -> bool, f: u8, n: int)
    requires 0 <= n <= 8,
    ensures ep_acc(acc, flip_eps(e, f), n) == (if (f as int) < n { ep_acc(acc, e, n) ^ zt_word(Comp::Ep(f)) } else { ep_acc(acc, e, n) }),
    decreases n,
{
    let g = flip_eps(e, f);
    if n > 0 {
        lemma_ep_acc_flip(acc, e, f, n - 1);
        let c = Comp::Ep((n - 1) as u8);
        let a = ep_acc(acc, e, n - 1);
        if (n - 1) as u8 == f { lemma_xor_if_flip(a, e((n - 1) as u8), c); }
        else if (f as int) < n - 1 { lemma_xor_if_shift(a, zt_word(Comp::Ep(f)), e((n - 1) as u8), c); }
    }
}

/// [C04] ledger row zk_wf_preserved: each toggle contract (value XORed with the slot's word, slot flipped in the ghost
/// set) preserves `v == zfold(slots)`
pub proof fn lemma_zfold_flip_piece(c: KeySet, k: Kind, s: Square)
    requires sq_ok(s),
    ensures zfold(flip_piece(c, k, s)) == zfold(c) ^ zt_word(Comp::Piece(k, s)),
{
    lemma_pieces_acc_flip(c.pieces, k, s, 64);
    let d = flip_piece(c, k, s);
    assert(d.pieces =~= flip_pieces(c.pieces, k, s));
    let z = zt_word(Comp::Piece(k, s));
    let a = pieces_acc(c.pieces, 64);
    lemma_rights_acc_shift(a, z, c);
    lemma_ep_acc_shift(rights_acc(a, c), z, c.ep, 8);
    lemma_xor_if_shift(ep_acc(rights_acc(a, c), c.ep, 8), z, c.white_turn, Comp::WhiteTurn);
}
pub proof fn lemma_zfold_flip_right(c: KeySet, k: CastlingKind)
    ensures zfold(flip_right(c, k)) == zfold(c) ^ zt_word(Comp::Right(k)),
{
    let z = zt_word(Comp::Right(k));
    let a0 = pieces_acc(c.pieces, 64);
    let d = flip_right(c, k);
    let wk = Comp::Right(CastlingKind::WhiteKingside); let wq = Comp::Right(CastlingKind::WhiteQueenside);
    let bk = Comp::Right(CastlingKind::BlackKingside); let bq = Comp::Right(CastlingKind::BlackQueenside);
    let a1 = xor_if(a0, c.wk, wk); let a2 = xor_if(a1, c.wq, wq); let a3 = xor_if(a2, c.bk, bk); let a4 = xor_if(a3, c.bq, bq);
    match k {
        CastlingKind::WhiteKingside => {
            lemma_xor_if_flip(a0, c.wk, wk); lemma_xor_if_shift(a1, z, c.wq, wq); lemma_xor_if_shift(a2, z, c.bk, bk); lemma_xor_if_shift(a3, z, c.bq, bq);
        },
        CastlingKind::WhiteQueenside => { lemma_xor_if_flip(a1, c.wq, wq); lemma_xor_if_shift(a2, z, c.bk, bk); lemma_xor_if_shift(a3, z, c.bq, bq); },
        CastlingKind::BlackKingside => { lemma_xor_if_flip(a2, c.bk, bk); lemma_xor_if_shift(a3, z, c.bq, bq); },
        CastlingKind::BlackQueenside => { lemma_xor_if_flip(a3, c.bq, bq); },
    }
    assert(rights_acc(a0, d) == a4 ^ z);
    lemma_ep_acc_shift(a4, z, c.ep, 8);
    lemma_xor_if_shift(ep_acc(a4, c.ep, 8), z, c.white_turn, Comp::WhiteTurn);
}
pub proof fn lemma_zfold_flip_ep(c: KeySet, f: u8)
    requires f < 8,
    ensures zfold(flip_ep(c, f)) == zfold(c) ^ zt_word(Comp::Ep(f)),
{
    let d = flip_ep(c, f);
    assert(d.ep =~= flip_eps(c.ep, f));
    let a = rights_acc(pieces_acc(c.pieces, 64), c);
    lemma_ep_acc_flip(a, c.ep, f, 8);
    lemma_xor_if_shift(ep_acc(a, c.ep, 8), zt_word(Comp::Ep(f)), c.white_turn, Comp::WhiteTurn);
}
pub proof fn lemma_zfold_flip_turn(c: KeySet)
    ensures zfold(flip_turn(c)) == zfold(c) ^ zt_word(Comp::WhiteTurn),
{
    lemma_xor_if_flip(ep_acc(rights_acc(pieces_acc(c.pieces, 64), c), c.ep, 8), c.white_turn, Comp::WhiteTurn);
}
