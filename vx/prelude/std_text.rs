// target: x86_64 (usize is 64 bits)
global size_of usize == 8;

// ---- std text functions whose *values* no clause depends on: opaque results (assumed total, as in std)
#[verifier::external_body]
pub fn fmt_opaque() -> String { unimplemented!() }
#[verifier::external_body]
pub fn print_opaque() { unimplemented!() }

/// R16: `xs.iter().position(|&a| a == lit)` -- first index whose element equals `lit`
#[verifier::external_body]
pub fn slice_position(xs: &[&str], lit: &str) -> (r: Option<usize>)
    ensures
        r matches Some(i) ==> i < xs@.len() && xs@[i as int]@ == lit@ && (forall|j: int| 0 <= j < i ==> (#[trigger] xs@[j])@ != lit@),
        r is None ==> (forall|j: int| 0 <= j < xs@.len() ==> (#[trigger] xs@[j])@ != lit@),
        // std: a slice of 16-byte elements has fewer than 2^59 elements (isize::MAX bytes)
        xs@.len() < 0x0800_0000_0000_0000,
{ unimplemented!() }

/// R18: `xs.iter().map(ToString::to_string).collect()` -- same strings, owned, same order
#[verifier::external_body]
pub fn strs_to_owned(xs: &[&str]) -> (r: Vec<String>)
    ensures r@.len() == xs@.len(), forall|i: int| 0 <= i < r@.len() ==> (#[trigger] r@[i])@ == xs@[i]@,
{ unimplemented!() }

#[verifier::external_type_specification]
#[verifier::external_body]
pub struct ExParseIntError(core::num::ParseIntError);

#[verifier::external_trait_specification]
pub trait ExFromStr: Sized {
    type ExternalTraitSpecificationFor: core::str::FromStr;
    type Err;
}

// values of parsed numbers are not used by any claimed clause: arbitrary result, never a panic (std)
pub assume_specification<F: core::str::FromStr>[ str::parse::<F> ](s: &str) -> (r: Result<F, F::Err>);

/// R19: `xs.join(sep)` -- opaque text (no claimed clause depends on it), total as in std
#[verifier::external_body]
pub fn join_strs(xs: &[&str], sep: &str) -> (r: String) { unimplemented!() }

pub assume_specification[ str::to_lowercase ](s: &str) -> (r: String);
