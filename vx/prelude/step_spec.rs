// (continues prelude/board_spec_core.rs) -- what one move does to a placement and to the castling rights; shared by the board and legal units
// ---- moving a piece on a placement (Appendix A)



pub open spec fn mp_result(m: Placement, start: Square, dest: Square, piece: Kind, promoted: Option<Kind>, captured: Option<Kind>, ep: bool) -> Placement {
    let m1 = upd(m, start, None);
    let m2 = if captured.is_some() { upd(m1, cap_sq(start, dest, ep), None) } else { m1 };
    upd(m2, dest, Some(lands(piece, promoted)))
}
pub open spec fn ump_ok(m: Placement, start: Square, dest: Square, piece: Kind, promoted: Option<Kind>, captured: Option<Kind>, ep: bool) -> bool {
    &&& sq_ok(start) && sq_ok(dest) && start != dest
    &&& m(dest) == Some(lands(piece, promoted))
    &&& m(start).is_none()
    &&& (ep ==> captured.is_some() && cap_sq(start, dest, ep) != start && cap_sq(start, dest, ep) != dest && m(cap_sq(start, dest, ep)).is_none())
}
pub open spec fn ump_result(m: Placement, start: Square, dest: Square, piece: Kind, promoted: Option<Kind>, captured: Option<Kind>, ep: bool) -> Placement {
    let m1 = upd(m, dest, None);
    let m2 = if captured.is_some() { upd(m1, cap_sq(start, dest, ep), captured) } else { m1 };
    upd(m2, start, Some(piece))
}

// ---- castling geometry (FIDE 3.8.2): king e->g / e->c, rook h->f / a->d on the king's rank




/// placement after the whole move: the mover, then the rook hop when castling
pub open spec fn placed(m: Placement, p: Ply, turn: Color) -> Placement {
    let m1 = mp_result(m, p.start, p.dest, p.piece, p.promoted_to, p.captured_piece, p.en_passant);
    if p.is_castles { mp_result(m1, rook_from(p.dest), rook_to(p.dest), Kind::Rook(turn), None, None, false) } else { m1 }
}

// ---- castling rights (C03): lost exactly when the king moved, that rook left its corner, or that rook was
// captured on its corner; never regained
pub open spec fn lose(s: CastlingStatus, cond: bool) -> CastlingStatus { if cond { CastlingStatus::Unavailable } else { s } }
#[verifier::opaque]
pub open spec fn rights_after(r: CastlingRights, piece: Kind, start: Square, captured: Option<Kind>, dest: Square) -> CastlingRights {
    CastlingRights {
        white_kingside: lose(r.white_kingside,
            piece == Kind::King(Color::White) || (piece == Kind::Rook(Color::White) && start == sq(0, 7))
            || (captured == Some(Kind::Rook(Color::White)) && dest == sq(0, 7))),
        white_queenside: lose(r.white_queenside,
            piece == Kind::King(Color::White) || (piece == Kind::Rook(Color::White) && start == sq(0, 0))
            || (captured == Some(Kind::Rook(Color::White)) && dest == sq(0, 0))),
        black_kingside: lose(r.black_kingside,
            piece == Kind::King(Color::Black) || (piece == Kind::Rook(Color::Black) && start == sq(7, 7))
            || (captured == Some(Kind::Rook(Color::Black)) && dest == sq(7, 7))),
        black_queenside: lose(r.black_queenside,
            piece == Kind::King(Color::Black) || (piece == Kind::Rook(Color::Black) && start == sq(7, 0))
            || (captured == Some(Kind::Rook(Color::Black)) && dest == sq(7, 0))),
    }
}
/// definition of rights_after, visible only where this lemma is in a `broadcast use`
pub broadcast proof fn reveal_rights_after(r: CastlingRights, piece: Kind, start: Square, captured: Option<Kind>, dest: Square)
    ensures #[trigger] rights_after(r, piece, start, captured, dest) == (CastlingRights {
        white_kingside: lose(r.white_kingside,
            piece == Kind::King(Color::White) || (piece == Kind::Rook(Color::White) && start == sq(0, 7))
            || (captured == Some(Kind::Rook(Color::White)) && dest == sq(0, 7))),
        white_queenside: lose(r.white_queenside,
            piece == Kind::King(Color::White) || (piece == Kind::Rook(Color::White) && start == sq(0, 0))
            || (captured == Some(Kind::Rook(Color::White)) && dest == sq(0, 0))),
        black_kingside: lose(r.black_kingside,
            piece == Kind::King(Color::Black) || (piece == Kind::Rook(Color::Black) && start == sq(7, 7))
            || (captured == Some(Kind::Rook(Color::Black)) && dest == sq(7, 7))),
        black_queenside: lose(r.black_queenside,
            piece == Kind::King(Color::Black) || (piece == Kind::Rook(Color::Black) && start == sq(7, 0))
            || (captured == Some(Kind::Rook(Color::Black)) && dest == sq(7, 0))),
    }),
{ reveal(rights_after); }

pub open spec fn clock_after(prev: int, p: Ply) -> int {
    if is_pawn(p.piece) || p.captured_piece.is_some() { 0 } else { prev + 1 }
}

