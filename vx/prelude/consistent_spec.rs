// ---- make_move's precondition on the ply (shared by the board and legal units); needs pl(b)
pub open spec fn cap_sq(start: Square, dest: Square, ep: bool) -> Square {
    if ep { Square { rank: start.rank, file: dest.file } } else { dest }
}
pub open spec fn lands(piece: Kind, promoted: Option<Kind>) -> Kind {
    match promoted { Some(p) => p, None => piece }
}
pub open spec fn mp_ok(m: Placement, start: Square, dest: Square, piece: Kind, captured: Option<Kind>, ep: bool) -> bool {
    &&& sq_ok(start) && sq_ok(dest) && start != dest
    &&& m(start) == Some(piece)
    &&& (ep ==> captured.is_some() && cap_sq(start, dest, ep) != start && cap_sq(start, dest, ep) != dest && m(dest).is_none())
    &&& (captured.is_some() ==> m(cap_sq(start, dest, ep)) == captured)
    &&& (captured.is_none() ==> m(dest).is_none())
}
pub open spec fn castle_dest_ok(d: Square) -> bool { (d.rank == 0 || d.rank == 7) && (d.file == 6 || d.file == 2) }
pub open spec fn rook_from(d: Square) -> Square { Square { rank: d.rank, file: if d.file == 6 { 7u8 } else { 0u8 } } }
pub open spec fn rook_to(d: Square) -> Square { Square { rank: d.rank, file: if d.file == 6 { 5u8 } else { 3u8 } } }
pub open spec fn c_fwd(c: Color) -> int { match c { Color::White => 1, Color::Black => -1 } }
pub open spec fn c_start_rank(c: Color) -> int { match c { Color::White => 1, Color::Black => 6 } }
pub open spec fn c_ep_rank(c: Color) -> int { match c { Color::White => 4, Color::Black => 3 } }
pub open spec fn c_last_rank(c: Color) -> int { match c { Color::White => 7, Color::Black => 0 } }
pub open spec fn is_pawn_kind(k: Kind) -> bool { k matches Kind::Pawn(_) }
pub open spec fn is_king_kind(k: Kind) -> bool { k matches Kind::King(_) }
/// the flags of a move agree with what it does (needed to keep the board invariants: en-passant pawn, home squares,
/// no pawn on a last rank); established by the generators for every generated move (unit legal)
pub open spec fn shaped_core(b: Board, p: Ply) -> bool {
    let c = b.current_turn;
    let mid = Square { rank: (p.start.rank as int + c_fwd(c)) as u8, file: p.start.file };
    &&& (p.is_double_pawn_push ==> {
            &&& p.piece == Kind::Pawn(c) && p.start.rank == c_start_rank(c)
            &&& p.dest == (Square { rank: (p.start.rank as int + 2 * c_fwd(c)) as u8, file: p.start.file })
            &&& pl(b)(mid).is_none() && p.captured_piece.is_none() && !p.en_passant && p.promoted_to.is_none()
        })
    &&& (p.en_passant ==> p.piece == Kind::Pawn(c) && p.start.rank == c_ep_rank(c) && p.captured_piece == Some(Kind::Pawn(opp(c)))
            && p.dest.rank == c_ep_rank(c) + c_fwd(c) && p.promoted_to.is_none())
    &&& (p.captured_piece matches Some(k) ==> !is_king_kind(k))
}
pub open spec fn promo_ok(b: Board, p: Ply) -> bool {
    let c = b.current_turn;
    &&& (p.promoted_to matches Some(k) ==> is_pawn_kind(p.piece) && !is_pawn_kind(k) && !is_king_kind(k) && color_of(k) == c)
    &&& (is_pawn_kind(p.piece) && p.dest.rank == c_last_rank(c) ==> p.promoted_to.is_some())
}
pub open spec fn shaped(b: Board, p: Ply) -> bool { shaped_core(b, p) && promo_ok(b, p) }
/// consistent without the promotion clause (a raw pawn move to the last rank, before it is exploded into four promotions)
pub open spec fn consistent_core(b: Board, p: Ply) -> bool {
    &&& mp_ok(pl(b), p.start, p.dest, p.piece, p.captured_piece, p.en_passant)
    &&& color_of(p.piece) == b.current_turn
    &&& (p.is_double_pawn_push ==> p.dest.file < 8)
    &&& shaped_core(b, p)
    &&& (p.is_castles ==> {
            &&& castle_dest_ok(p.dest) && p.captured_piece.is_none() && !p.en_passant && p.promoted_to.is_none()
            &&& p.piece == Kind::King(b.current_turn)
            &&& p.start == (Square { rank: p.dest.rank, file: 4 })
            &&& pl(b)(rook_from(p.dest)) == Some(Kind::Rook(b.current_turn))
            &&& pl(b)(rook_to(p.dest)).is_none()
        })
}
/// what make_move needs from the ply: it describes a move of the piece standing on `start`
/// (every generator establishes this; C01)
pub open spec fn consistent(b: Board, p: Ply) -> bool { consistent_core(b, p) && promo_ok(b, p) }
