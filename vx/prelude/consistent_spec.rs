// ---- make_move's precondition on the ply (shared by the board and legal units); needs pl(b)
pub open spec fn cap_sq(start: Square, dest: Square, ep: bool) -> Square {
    if ep { Square { rank: start.rank, file: dest.file } } else { dest }
}
pub open spec fn lands(piece: Kind, promoted: Option<Kind>) -> Kind {
    match promoted { Some(p) => p, None => piece }
}
pub open spec fn mp_ok(m: Placement, start: Square, dest: Square, piece: Kind, captured: Option<Kind>, ep: bool) -> bool {
    &&& sq_ok(start) && sq_ok(dest) && start != dest
    &&& m(start) == Some(piece)
    &&& (ep ==> captured.is_some() && cap_sq(start, dest, ep) != start && cap_sq(start, dest, ep) != dest && m(dest).is_none())
    &&& (captured.is_some() ==> m(cap_sq(start, dest, ep)) == captured)
    &&& (captured.is_none() ==> m(dest).is_none())
}
pub open spec fn castle_dest_ok(d: Square) -> bool { (d.rank == 0 || d.rank == 7) && (d.file == 6 || d.file == 2) }
pub open spec fn rook_from(d: Square) -> Square { Square { rank: d.rank, file: if d.file == 6 { 7u8 } else { 0u8 } } }
pub open spec fn rook_to(d: Square) -> Square { Square { rank: d.rank, file: if d.file == 6 { 5u8 } else { 3u8 } } }
/// what make_move needs from the ply: it describes a move of the piece standing on `start`
/// (every generator establishes this; C01)
pub open spec fn consistent(b: Board, p: Ply) -> bool {
    &&& mp_ok(pl(b), p.start, p.dest, p.piece, p.captured_piece, p.en_passant)
    &&& color_of(p.piece) == b.current_turn
    &&& (p.is_double_pawn_push ==> p.dest.file < 8)
    &&& (p.is_castles ==> {
            &&& castle_dest_ok(p.dest) && p.captured_piece.is_none() && !p.en_passant && p.promoted_to.is_none()
            &&& p.piece == Kind::King(b.current_turn)
            &&& p.start == (Square { rank: p.dest.rank, file: 4 })
            &&& pl(b)(rook_from(p.dest)) == Some(Kind::Rook(b.current_turn))
            &&& pl(b)(rook_to(p.dest)).is_none()
        })
}
