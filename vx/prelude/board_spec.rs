// (continues prelude/step_spec.rs)
// ---- the board seen as a game state
pub open spec fn last(b: Board) -> Ply { b.history@[b.history@.len() - 1] }

pub open spec fn pl(b: Board) -> Placement { at(b.bitboards) }

/// the undo record make_move must push
pub open spec fn recorded(b: Board, p: Ply) -> Ply {
    Ply {
        halfmove_clock: clock_after(last(b).halfmove_clock as int, p) as u16,
        castling_rights: rights_after(last(b).castling_rights, p.piece, p.start, p.captured_piece, p.dest),
        ..p
    }
}

/// ep file as a function of the last record (the only way unmake can recover it)
pub open spec fn ep_of(p: Ply) -> Option<u8> { if p.is_double_pawn_push { Some(p.dest.file) } else { None } }

// The key invariant, per component family; lemma_key_ok_comps shows the conjunction says
// "a slot is in the key iff it is a component of the position".
pub open spec fn pk_ok(c: KeySet, m: Placement) -> bool {
    forall|k: Kind, s: Square| #[trigger] (c.pieces)(k, s) == (sq_ok(s) && m(s) == Some(k))
}
pub open spec fn rk_ok(c: KeySet, r: CastlingRights) -> bool {
    &&& c.wk == (r.white_kingside == CastlingStatus::Available)
    &&& c.wq == (r.white_queenside == CastlingStatus::Available)
    &&& c.bk == (r.black_kingside == CastlingStatus::Available)
    &&& c.bq == (r.black_queenside == CastlingStatus::Available)
}
pub open spec fn ek_ok(c: KeySet, ep: Option<u8>) -> bool {
    forall|f: u8| #[trigger] (c.ep)(f) == (ep == Some(f))
}
pub open spec fn tk_ok(c: KeySet, t: Color) -> bool { c.white_turn == (t == Color::White) }
pub open spec fn same_rights(a: KeySet, b: KeySet) -> bool { a.wk == b.wk && a.wq == b.wq && a.bk == b.bk && a.bq == b.bq }

pub open spec fn key_ok(b: Board) -> bool {
    &&& zk_wf(b.zkey)
    &&& pk_ok(b.zkey.comps@, pl(b))
    &&& rk_ok(b.zkey.comps@, last(b).castling_rights)
    &&& ek_ok(b.zkey.comps@, b.en_passant_file)
    &&& tk_ok(b.zkey.comps@, b.current_turn)
}

/// C04 in one line: a slot is in the key iff it is a component of the position
pub proof fn lemma_key_ok_comps(b: Board, x: Comp)
    requires key_ok(b),
    ensures ks_has(b.zkey.comps@, x) == comp_in(pl(b), last(b).castling_rights, b.en_passant_file, b.current_turn, x),
{
    let c = b.zkey.comps@;
    match x {
        Comp::Piece(k, s) => { assert((c.pieces)(k, s) == (sq_ok(s) && pl(b)(s) == Some(k))); }
        Comp::Right(k) => {}
        Comp::Ep(f) => { assert((c.ep)(f) == (b.en_passant_file == Some(f))); }
        Comp::WhiteTurn => {}
    }
}

/// representation invariant (section 2.6), the part make/unmake need
pub open spec fn board_wf(b: Board) -> bool {
    &&& b.history@.len() >= 1
    &&& pb_wf(b.bitboards)
    &&& b.en_passant_file == ep_of(last(b))
    &&& (b.en_passant_file matches Some(f) ==> f < 8)
    &&& key_ok(b)
}



pub open spec fn range_ok(b: Board) -> bool {
    last(b).halfmove_clock < 65535 && b.fullmove_counter < 65535
}
