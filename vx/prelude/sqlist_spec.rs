// ---- the squares of a bitboard in ascending index order (what `Vec<Square>::from(Bitboard)` returns)
pub open spec fn sq_list(x: u64, n: int) -> Seq<Square>
    decreases n,
{
    if n <= 0 { Seq::<Square>::empty() } else if bit(x, n - 1) { sq_list(x, n - 1).push(sq_of(n - 1)) } else { sq_list(x, n - 1) }
}
/// membership: exactly the set bits, each once, ascending
pub proof fn lemma_sq_list_members(x: u64, n: int)
    requires 0 <= n <= 64,
    ensures
        forall|i: int| 0 <= i < sq_list(x, n).len() ==> sq_ok(#[trigger] sq_list(x, n)[i]) && sq_idx(sq_list(x, n)[i]) < n && bit(x, sq_idx(sq_list(x, n)[i])),
        forall|i: int, j: int| 0 <= i < j < sq_list(x, n).len() ==> sq_idx(#[trigger] sq_list(x, n)[i]) < sq_idx(#[trigger] sq_list(x, n)[j]),
        forall|t: int| 0 <= t < n && bit(x, t) ==> exists|i: int| 0 <= i < sq_list(x, n).len() && #[trigger] sq_list(x, n)[i] == sq_of(t),
    decreases n,
{
    if n > 0 {
        lemma_sq_list_members(x, n - 1);
        let p = sq_list(x, n - 1);
        let l = sq_list(x, n);
        assert(sq_idx(sq_of(n - 1)) == n - 1 && sq_ok(sq_of(n - 1)));
        assert forall|t: int| 0 <= t < n && bit(x, t) implies exists|i: int| 0 <= i < l.len() && #[trigger] l[i] == sq_of(t) by {
            if t == n - 1 { assert(l[l.len() - 1] == sq_of(t)); }
            else {
                let i = choose|i: int| 0 <= i < p.len() && #[trigger] p[i] == sq_of(t);
                assert(l[i] == sq_of(t));
            }
        }
    }
}
pub proof fn lemma_sq_list_zero(n: int)
    requires 0 <= n <= 64,
    ensures sq_list(0u64, n) =~= Seq::<Square>::empty(),
    decreases n,
{
    broadcast use lemma_bit_zero;
    if n > 0 { lemma_sq_list_zero(n - 1); }
}
/// bits of `m & (m - 1)`: the lowest set bit is cleared, the others stay
pub proof fn lemma_clear_lowest(m: u64, j: int)
    requires m != 0, 0 <= j < 64,
    ensures bit((m & ((m - 1) as u64)), j) == (bit(m, j) && j != vstd::std_specs::bits::u64_trailing_zeros(m)),
{
    broadcast use vstd::std_specs::bits::axiom_u64_trailing_zeros;
    let t = vstd::std_specs::bits::u64_trailing_zeros(m) as u64;
    let jj = j as u64;
    let m1 = (m - 1) as u64;
    assert(m1 == sub(m, 1));
    // the three facts that characterise t make m-1 flip exactly the bits <= t
    assert(forall|k: u64| k < t ==> #[trigger] ((m >> k) & 1u64) == 0u64);
    assert((m >> t) & 1u64 == 1u64);
    assert(m != 0 && t < 64 && jj < 64 && ((m >> t) & 1u64 == 1u64) && (m & sub(1u64 << t, 1)) == 0
        ==> ((((m & sub(m, 1)) >> jj) & 1u64 == 1u64) == (((m >> jj) & 1u64 == 1u64) && jj != t))) by(bit_vector);
    lemma_low_bits_zero(m, t);
}
/// if every bit below t is clear then m & (2^t - 1) == 0
pub proof fn lemma_low_bits_zero(m: u64, t: u64)
    requires t < 64, forall|k: u64| k < t ==> #[trigger] ((m >> k) & 1u64) == 0u64,
    ensures (m & sub(1u64 << t, 1)) == 0,
    decreases t,
{
    if t == 0 {
        assert((m & sub(1u64 << 0u64, 1)) == 0) by(bit_vector);
    } else {
        let u = (t - 1) as u64;
        lemma_low_bits_zero(m, u);
        assert(((m >> u) & 1u64) == 0u64);
        assert(u < 63 && (m & sub(1u64 << u, 1)) == 0 && ((m >> u) & 1u64) == 0u64 ==> (m & sub(1u64 << add(u, 1), 1)) == 0) by(bit_vector);
        assert(add(u, 1) == t);
    }
}
/// head decomposition: the list of m is its lowest square followed by the list of m with that bit cleared
pub proof fn lemma_sq_list_head(m: u64, n: int)
    requires m != 0, 0 <= n <= 64,
    ensures ({
        let t = vstd::std_specs::bits::u64_trailing_zeros(m) as int;
        let m2 = (m & ((m - 1) as u64));
        sq_list(m, n) =~= (if n > t { seq![sq_of(t)] + sq_list(m2, n) } else { Seq::<Square>::empty() })
        && (n <= t ==> sq_list(m2, n) =~= Seq::<Square>::empty())
    }),
    decreases n,
{
    broadcast use vstd::std_specs::bits::axiom_u64_trailing_zeros;
    let t = vstd::std_specs::bits::u64_trailing_zeros(m) as int;
    let m2 = (m & ((m - 1) as u64));
    if n > 0 {
        lemma_sq_list_head(m, n - 1);
        lemma_clear_lowest(m, n - 1);
        assert(forall|k: u64| k < (t as u64) ==> #[trigger] ((m >> k) & 1u64) == 0u64);
        if n - 1 < t {
            assert(((m >> ((n - 1) as u64)) & 1u64) == 0u64);
            assert(!bit(m, n - 1));
        } else if n - 1 == t {
            assert(bit(m, n - 1));
            assert(!bit(m2, n - 1));
        }
    }
}
