// =====================================================================================
// [C01 "no duplicates"] no two generated moves share start, destination and promotion -- the triple the coordinate
// notation writes out (native fact to_notation_exact), so no move is offered twice and a move string names at most one
// legal move (C08).  Spec-level proof over the generator specifications, under the generators' invariant gen_wf.
// =====================================================================================
pub open spec fn same_key(p: Ply, q: Ply) -> bool { p.start == q.start && p.dest == q.dest && p.promoted_to == q.promoted_to }
/// the on-board members of l are pairwise different in (start, dest, promotion)
pub open spec fn distinct_on(l: Seq<Ply>) -> bool {
    forall|i: int, j: int| 0 <= i < j < l.len() && on_board_move(#[trigger] l[i]) && on_board_move(#[trigger] l[j]) ==> !same_key(l[i], l[j])
}
pub open spec fn cross_distinct(a: Seq<Ply>, b: Seq<Ply>) -> bool {
    forall|i: int, j: int| 0 <= i < a.len() && 0 <= j < b.len() && on_board_move(#[trigger] a[i]) && on_board_move(#[trigger] b[j]) ==> !same_key(a[i], b[j])
}
pub proof fn lemma_concat_distinct(a: Seq<Ply>, b: Seq<Ply>)
    requires distinct_on(a), distinct_on(b), cross_distinct(a, b),
    ensures distinct_on(a + b),
{
    let l = a + b;
    assert forall|i: int, j: int| 0 <= i < j < l.len() && on_board_move(#[trigger] l[i]) && on_board_move(#[trigger] l[j]) implies !same_key(l[i], l[j]) by {
        if j < a.len() { assert(l[i] == a[i] && l[j] == a[j]); }
        else if i >= a.len() { assert(l[i] == b[i - a.len()] && l[j] == b[j - a.len()]); }
        else { assert(l[i] == a[i] && l[j] == b[j - a.len()]); }
    }
}
/// a filter keeps a sub-list in order: distinctness survives
pub proof fn lemma_keep_distinct(l: Seq<Ply>, n: int, pred: spec_fn(Ply) -> bool)
    requires 0 <= n <= l.len(), distinct_on(l),
    ensures distinct_on(keep(l, n, pred)),
    decreases n,
{
    if n > 0 {
        lemma_keep_distinct(l, n - 1, pred);
        let k0 = keep(l, n - 1, pred);
        if pred(l[n - 1]) {
            let k = keep(l, n, pred);
            assert(k == k0.push(l[n - 1]));
            assert forall|i: int, j: int| 0 <= i < j < k.len() && on_board_move(#[trigger] k[i]) && on_board_move(#[trigger] k[j]) implies !same_key(k[i], k[j]) by {
                if j < k0.len() { assert(k[i] == k0[i] && k[j] == k0[j]); }
                else {
                    lemma_keep_elem(l, n - 1, pred, i);
                    let u = choose|u: int| 0 <= u < n - 1 && #[trigger] l[u] == k0[i] && pred(l[u]);
                    assert(k[i] == l[u] && k[j] == l[n - 1]);
                    assert(on_board_move(l[u]) && on_board_move(l[n - 1]));
                }
            }
        }
    }
}
/// the key is untouched by filling in the captured piece
pub proof fn lemma_fill_distinct(b: Board, l: Seq<Ply>)
    requires distinct_on(l),
    ensures distinct_on(l.map_values(|p: Ply| fill(b, p))),
{
    let m = l.map_values(|p: Ply| fill(b, p));
    assert forall|i: int, j: int| 0 <= i < j < m.len() && on_board_move(#[trigger] m[i]) && on_board_move(#[trigger] m[j]) implies !same_key(m[i], m[j]) by {
        assert(m[i] == fill(b, l[i]) && m[j] == fill(b, l[j]));
        assert(on_board_move(l[i]) && on_board_move(l[j]));
    }
}

// ---- one piece
/// moves built from the squares of a bitboard: one per square, destinations in ascending order
pub proof fn lemma_sq_moves_distinct(x: u64, s: Square, k: Kind)
    ensures distinct_on(sq_list(x, 64).map_values(|d: Square| ply_new(s, d, k))),
{
    lemma_sq_list_members(x, 64);
    let l = sq_list(x, 64).map_values(|d: Square| ply_new(s, d, k));
    assert forall|i: int, j: int| 0 <= i < j < l.len() && on_board_move(#[trigger] l[i]) && on_board_move(#[trigger] l[j]) implies !same_key(l[i], l[j]) by {
        assert(l[i].dest == sq_list(x, 64)[i] && l[j].dest == sq_list(x, 64)[j]);
        assert(sq_idx(sq_list(x, 64)[i]) < sq_idx(sq_list(x, 64)[j]));
    }
}
/// LEDGER native:queen_and_leaper_lookup_exact -- a king on its home square e1/e8 does not reach g1/c1 (g8/c8) in one step
pub axiom fn axiom_king_home_reach(r: int)
    requires r == 0 || r == 7,
    ensures !bit(king_att(sq(r, 4)), r * 8 + 6), !bit(king_att(sq(r, 4)), r * 8 + 2);

pub proof fn lemma_king_distinct(b: Board, s: Square, c: Color)
    requires sq_ok(s),
    ensures distinct_on(king_moves(b, s, c)),
{
    broadcast use lemma_bit_and;
    let k = Kind::King(c);
    let x = att(k, s, b.bitboards.all_pieces.0) & !own_bb(b, color_of(k));
    lemma_sq_moves_distinct(x, s, k);
    lemma_sq_list_members(x, 64);
    let st = step_moves(b, s, k);
    let l = king_moves(b, s, c);
    if s == sq(0, 4) || s == sq(7, 4) {
        let r = s.rank as int;
        axiom_king_home_reach(r);
        // a step never lands on the castling destinations
        assert forall|i: int| 0 <= i < st.len() implies st[i].dest != sq(r, 6) && st[i].dest != sq(r, 2) by {
            let d = sq_list(x, 64)[i];
            assert(st[i].dest == d);
            assert(bit(x, sq_idx(d)));
            assert(bit(king_att(s), sq_idx(d)));
            assert(sq_idx(sq(r, 6)) == r * 8 + 6 && sq_idx(sq(r, 2)) == r * 8 + 2);
        }
        assert forall|i: int, j: int| 0 <= i < j < l.len() && on_board_move(#[trigger] l[i]) && on_board_move(#[trigger] l[j]) implies !same_key(l[i], l[j]) by {
            if j < st.len() { assert(l[i] == st[i] && l[j] == st[j]); }
            else {
                assert(l[j].dest == sq(r, 6) || l[j].dest == sq(r, 2));
                if i < st.len() { assert(l[i] == st[i]); }
                else { assert(l[i].dest == sq(r, 6) && l[j].dest == sq(r, 2)); }
            }
        }
    } else {
        assert(l =~= st);
    }
}
/// destinations of the raw pawn moves (before promotions are spelled out) are pairwise different on the board
pub open spec fn dest_distinct(l: Seq<Ply>) -> bool {
    forall|i: int, j: int| 0 <= i < j < l.len() && on_board_move(#[trigger] l[i]) && on_board_move(#[trigger] l[j]) ==> l[i].dest != l[j].dest
}
pub proof fn lemma_pawn_raw_dests(b: Board, s: Square, c: Color)
    requires gen_wf(b), sq_ok(s), pl(b)(s) == Some(Kind::Pawn(c)), c == b.current_turn, s.rank != last_rank(c),
    ensures dest_distinct(pawn_raw(b, s, c)),
            forall|i: int| 0 <= i < pawn_raw(b, s, c).len() ==> (#[trigger] pawn_raw(b, s, c)[i]).start == s && pawn_raw(b, s, c)[i].promoted_to.is_none(),
{
    broadcast use lemma_bit_and;
    let r = s.rank as int; let f = s.file as int; let d = fwd(c);
    let x = pawn_att(s, c) & enemy_bb(b, c);
    lemma_sq_list_members(x, 64);
    let caps = pawn_captures(b, s, c);
    let raw = pawn_raw(b, s, c);
    let s1 = add_delta(s, d, 0);
    lemma_add_delta(s, d, 0);
    lemma_add_delta(s1, d, 0);
    lemma_add_delta(s1, 0, 1);
    lemma_add_delta(s1, 0, -1);
    let d1 = s1; let d2 = add_delta(s1, d, 0); let d3 = add_delta(s1, 0, 1); let d4 = add_delta(s1, 0, -1);
    // the four single moves: where they go
    assert(d1.file == f && d2.file == f && d1.rank != d2.rank);
    assert(d3.rank == d1.rank && d4.rank == d1.rank && d3.file != d1.file && d4.file != d1.file && d3.file != d4.file);
    assert(d2.rank != d3.rank && d2.rank != d4.rank);
    // captures land on occupied squares, the single moves (when generated and on the board) on empty ones
    assert forall|i: int| 0 <= i < caps.len() implies sq_ok(#[trigger] caps[i].dest) && pl(b)(caps[i].dest).is_some() by {
        let t = sq_list(x, 64)[i];
        assert(caps[i].dest == t);
        lemma_sq_of_idx(t);
        assert(bit(enemy_bb(b, c), sq_idx(t)));
        lemma_occupancy(b.bitboards, sq_idx(t));
    }
    if 0 <= r + d < 8 { lemma_empty_at(b, r + d, f); assert(d1 == sq(r + d, f)); }
    if 0 <= r + 2 * d < 8 { lemma_empty_at(b, r + 2 * d, f); assert(d2 == sq(r + 2 * d, f)); }
    // the en-passant destinations are empty: the square skipped by the double step (ep_inv)
    assert(r == ep_rank(c) && b.en_passant_file == Some(d3.file) && d3.file < 8 ==> pl(b)(d3).is_none()) by {
        if r == ep_rank(c) && b.en_passant_file == Some(d3.file) && d3.file < 8 { assert(d3 == sq(c_ep_rank(c) + c_fwd(c), d3.file as int)); }
    }
    assert(r == ep_rank(c) && b.en_passant_file == Some(d4.file) && d4.file < 8 ==> pl(b)(d4).is_none()) by {
        if r == ep_rank(c) && b.en_passant_file == Some(d4.file) && d4.file < 8 { assert(d4 == sq(c_ep_rank(c) + c_fwd(c), d4.file as int)); }
    }
    let n = caps.len() as int;
    assert forall|i: int, j: int| 0 <= i < j < raw.len() && on_board_move(#[trigger] raw[i]) && on_board_move(#[trigger] raw[j]) implies raw[i].dest != raw[j].dest by {
        if j < n {
            assert(raw[i] == caps[i] && raw[j] == caps[j]);
            assert(sq_idx(sq_list(x, 64)[i]) < sq_idx(sq_list(x, 64)[j]));
        } else {
            // raw[j] is one of the four single moves
            assert(raw[j].dest == d1 || raw[j].dest == d2 || raw[j].dest == d3 || raw[j].dest == d4);
            assert(pl(b)(raw[j].dest).is_none());
            if i < n { assert(raw[i] == caps[i]); }
            else { assert(raw[i].dest == d1 || raw[i].dest == d2 || raw[i].dest == d3 || raw[i].dest == d4); }
        }
    }
}
pub proof fn lemma_explode_distinct(raw: Seq<Ply>, c: Color, n: int, s: Square)
    requires 0 <= n <= raw.len(), dest_distinct(raw),
             forall|i: int| 0 <= i < raw.len() ==> (#[trigger] raw[i]).start == s && raw[i].promoted_to.is_none(),
    ensures distinct_on(explode_all(raw, c, n)),
            forall|t: int| 0 <= t < explode_all(raw, c, n).len() ==> exists|u: int| 0 <= u < n && (#[trigger] explode_all(raw, c, n)[t]).dest == raw[u].dest
                && explode_all(raw, c, n)[t].start == raw[u].start,
    decreases n,
{
    if n > 0 {
        lemma_explode_distinct(raw, c, n - 1, s);
        let a = explode_all(raw, c, n - 1);
        let e = explode(raw[n - 1], c);
        let l = explode_all(raw, c, n);
        assert(l == a + e);
        assert forall|t: int| 0 <= t < l.len() implies exists|u: int| 0 <= u < n && (#[trigger] l[t]).dest == raw[u].dest && l[t].start == raw[u].start by {
            if t < a.len() {
                let u = choose|u: int| 0 <= u < n - 1 && a[t].dest == raw[u].dest && a[t].start == raw[u].start;
                assert(l[t] == a[t] && 0 <= u < n);
            } else {
                assert(l[t] == e[t - a.len()]);
                assert(l[t].dest == raw[n - 1].dest && l[t].start == raw[n - 1].start);
            }
        }
        assert(distinct_on(e));
        assert forall|i: int, j: int| 0 <= i < a.len() && 0 <= j < e.len() && on_board_move(#[trigger] a[i]) && on_board_move(#[trigger] e[j]) implies !same_key(a[i], e[j]) by {
            let u = choose|u: int| 0 <= u < n - 1 && a[i].dest == raw[u].dest && a[i].start == raw[u].start;
            assert(e[j].dest == raw[n - 1].dest && e[j].start == raw[n - 1].start);
            assert(on_board_move(raw[u]) && on_board_move(raw[n - 1]));
        }
        lemma_concat_distinct(a, e);
    }
}
/// the moves generated for the piece k standing on s
pub proof fn lemma_kind_moves_distinct(b: Board, s: Square, k: Kind)
    requires gen_wf(b), sq_ok(s), pl(b)(s) == Some(k), color_of(k) == b.current_turn,
    ensures distinct_on(kind_moves(b, s, k)),
            forall|i: int| 0 <= i < kind_moves(b, s, k).len() ==> (#[trigger] kind_moves(b, s, k)[i]).start == s,
{
    match k {
        Kind::Pawn(c) => {
            lemma_pawn_raw_dests(b, s, c);
            lemma_explode_distinct(pawn_raw(b, s, c), c, pawn_raw(b, s, c).len() as int, s);
        },
        Kind::King(c) => { lemma_king_distinct(b, s, c); },
        _ => { lemma_sq_moves_distinct(att(k, s, b.bitboards.all_pieces.0) & !own_bb(b, color_of(k)), s, k); },
    }
}

// ---- the whole list
pub proof fn lemma_all_upto_distinct(b: Board, n: int)
    requires gen_wf(b), 0 <= n <= 64,
    ensures distinct_on(all_upto(b, n)),
            forall|i: int| 0 <= i < all_upto(b, n).len() ==> sq_ok((#[trigger] all_upto(b, n)[i]).start) && sq_idx(all_upto(b, n)[i].start) < n,
    decreases n,
{
    if n > 0 {
        lemma_all_upto_distinct(b, n - 1);
        let s = sq_of(n - 1);
        assert(sq_ok(s) && sq_idx(s) == n - 1);
        match at(b.bitboards)(s) {
            Some(k) => {
                if color_of(k) == b.current_turn {
                    if (k matches Kind::Pawn(c) && s.rank == last_rank(c)) {
                        // excluded by pawns_ok
                        assert(false);
                    }
                    lemma_kind_moves_distinct(b, s, k);
                    let km = kind_moves(b, s, k);
                    lemma_keep_distinct(km, km.len() as int, |p: Ply| on_board_move(p));
                    let pm = piece_moves(b, s, k);
                    lemma_fill_distinct(b, pm);
                    let m = pm.map_values(|p: Ply| fill(b, p));
                    let a = all_upto(b, n - 1);
                    assert forall|t: int| 0 <= t < m.len() implies (#[trigger] m[t]).start == s by {
                        lemma_keep_elem(km, km.len() as int, |p: Ply| on_board_move(p), t);
                        let u = choose|u: int| 0 <= u < km.len() && #[trigger] km[u] == pm[t] && on_board_move(km[u]);
                        assert(m[t] == fill(b, pm[t]));
                    }
                    assert(cross_distinct(a, m));
                    lemma_concat_distinct(a, m);
                    assert(all_upto(b, n) == a + m);
                }
            },
            None => {},
        }
    }
}
/// [C01] no move is generated twice; [C08] a move string names at most one generated move
pub proof fn lemma_all_moves_distinct(b: Board)
    requires gen_wf(b),
    ensures forall|i: int, j: int| 0 <= i < j < all_moves(b).len() ==> !same_key(#[trigger] all_moves(b)[i], #[trigger] all_moves(b)[j]),
{
    lemma_all_upto_distinct(b, 64);
    // every generated move is on the board: it passed the on-board filter
    assert forall|i: int| 0 <= i < all_moves(b).len() implies on_board_move(#[trigger] all_moves(b)[i]) by {
        lemma_all_upto_elem(b, 64, i);
        let (j, t) = choose|j: int, t: int| 0 <= j < 64 && 0 <= t < piece_moves(b, sq_of(j), pl(b)(sq_of(j)).unwrap()).len()
            && pl(b)(sq_of(j)).is_some() && color_of(pl(b)(sq_of(j)).unwrap()) == b.current_turn
            && #[trigger] fill(b, piece_moves(b, sq_of(j), pl(b)(sq_of(j)).unwrap())[t]) == all_upto(b, 64)[i];
        let k = pl(b)(sq_of(j)).unwrap();
        let km = kind_moves(b, sq_of(j), k);
        lemma_keep_elem(km, km.len() as int, |p: Ply| on_board_move(p), t);
        let u = choose|u: int| 0 <= u < km.len() && #[trigger] km[u] == piece_moves(b, sq_of(j), k)[t] && on_board_move(km[u]);
        assert(on_board_move(piece_moves(b, sq_of(j), k)[t]));
    }
}

/// [C01][C08] the same for the legal moves (a sub-list of the generated ones): no legal move is offered twice, and two
/// different entries of the list never carry the same coordinate notation
pub proof fn lemma_legal_moves_distinct(b: Board)
    requires gen_wf(b),
    ensures forall|i: int, j: int| 0 <= i < j < legal_moves(b).len() ==> !same_key(#[trigger] legal_moves(b)[i], #[trigger] legal_moves(b)[j]),
{
    lemma_all_upto_distinct(b, 64);
    let am = all_moves(b);
    let pred = |p: Ply| legal_after(b, p);
    lemma_keep_distinct(am, am.len() as int, pred);
    let lm = legal_moves(b);
    assert forall|i: int| 0 <= i < lm.len() implies on_board_move(#[trigger] lm[i]) by {
        lemma_keep_elem(am, am.len() as int, pred, i);
        let u = choose|u: int| 0 <= u < am.len() && #[trigger] am[u] == lm[i] && pred(am[u]);
        lemma_all_moves_distinct(b);
        // am[u] is on the board (shown inside lemma_all_moves_distinct); restate it here
        lemma_all_upto_elem(b, 64, u);
        let (j, t) = choose|j: int, t: int| 0 <= j < 64 && 0 <= t < piece_moves(b, sq_of(j), pl(b)(sq_of(j)).unwrap()).len()
            && pl(b)(sq_of(j)).is_some() && color_of(pl(b)(sq_of(j)).unwrap()) == b.current_turn
            && #[trigger] fill(b, piece_moves(b, sq_of(j), pl(b)(sq_of(j)).unwrap())[t]) == all_upto(b, 64)[u];
        let k = pl(b)(sq_of(j)).unwrap();
        let km = kind_moves(b, sq_of(j), k);
        lemma_keep_elem(km, km.len() as int, |p: Ply| on_board_move(p), t);
        let w = choose|w: int| 0 <= w < km.len() && #[trigger] km[w] == piece_moves(b, sq_of(j), k)[t] && on_board_move(km[w]);
        assert(on_board_move(piece_moves(b, sq_of(j), k)[t]));
    }
}
