// =====================================================================================
// [C01/C02/C03 induction] the board invariants the generators rely on are preserved by make_move:
// a lemma over make_move's postcondition (b0 --p--> b1), so that they hold in every position reached by play.
// =====================================================================================
pub open spec fn inv3(b: Board) -> bool { ep_inv(b) && home_inv(b) && pawns_ok(b) }

/// the part of make_move's postcondition the generators' invariants depend on: placement, side to move, en-passant
/// file and the castling rights of the new undo record (clocks and counters do not matter here)
pub open spec fn stepped(b0: Board, p: Ply, b1: Board) -> bool {
    &&& pl(b1) =~= placed(pl(b0), p, b0.current_turn)
    &&& b1.current_turn == opp(b0.current_turn)
    &&& b1.en_passant_file == (if p.is_double_pawn_push { Some(p.dest.file) } else { None })
    &&& b1.history@.len() >= 1
    &&& last(b1).castling_rights == rights_after(last(b0).castling_rights, p.piece, p.start, p.captured_piece, p.dest)
}

pub proof fn lemma_make_move_preserves_home(b0: Board, p: Ply, b1: Board)
    requires b0.history@.len() >= 1, home_inv(b0), consistent(b0, p), stepped(b0, p, b1),
    ensures home_inv(b1),
{
    reveal(rights_after);
    let m0 = pl(b0); let m1 = pl(b1);
    let r0 = last(b0).castling_rights; let r1 = last(b1).castling_rights;
    let c = b0.current_turn;
    assert(r1 == rights_after(r0, p.piece, p.start, p.captured_piece, p.dest));
    // a right that survives: neither its king nor its rook moved, and its rook was not captured; the ep victim square is on
    // rank 3/4 and castling rook squares belong to the mover, whose right is gone
    assert(p.en_passant ==> cap_sq(p.start, p.dest, true).rank == c_ep_rank(c));
}
pub proof fn lemma_make_move_preserves_ep(b0: Board, p: Ply, b1: Board)
    requires b0.history@.len() >= 1, consistent(b0, p), stepped(b0, p, b1),
    ensures ep_inv(b1),
{
    let c = b0.current_turn;
    if p.is_double_pawn_push {
        let f = p.start.file as int;
        assert(p.dest == sq(c_start_rank(c) + 2 * c_fwd(c), f));
        assert(sq(c_ep_rank(opp(c)), f) == p.dest);
        assert(sq(c_ep_rank(opp(c)) + c_fwd(opp(c)), f) == (Square { rank: (p.start.rank as int + c_fwd(c)) as u8, file: p.start.file }));
    }
}
pub proof fn lemma_make_move_preserves_pawns(b0: Board, p: Ply, b1: Board)
    requires b0.history@.len() >= 1, pawns_ok(b0), consistent(b0, p), stepped(b0, p, b1),
    ensures pawns_ok(b1),
{
    let m0 = pl(b0); let m1 = pl(b1);
    let c = b0.current_turn;
    assert forall|s: Square| sq_ok(s) implies (match #[trigger] m1(s) { Some(Kind::Pawn(c2)) => s.rank != c_last_rank(c2), _ => true }) by {
        let old = m0(s);
        if s == p.dest {
            // what lands: the promoted piece (never a pawn) or the moving piece (a pawn only if it did not reach its last rank)
        } else if p.is_castles && s == rook_to(p.dest) {
        } else {
            assert(m1(s).is_none() || m1(s) == old);
        }
    }
}
/// the three invariants together
pub proof fn lemma_make_move_preserves_inv(b0: Board, p: Ply, b1: Board)
    requires b0.history@.len() >= 1, inv3(b0), consistent(b0, p), stepped(b0, p, b1),
    ensures inv3(b1),
{
    lemma_make_move_preserves_home(b0, p, b1);
    lemma_make_move_preserves_ep(b0, p, b1);
    lemma_make_move_preserves_pawns(b0, p, b1);
}

